"""C17 -- action outcome classification, Task.execute, capture, restoration of sys.stdout/stderr.

Correspondence: the real PythonAction / CmdAction / Task.execute / Runner / MThreadRunner / DoitMain
are run on generated inputs and their observable outcome is compared with Model/Action.v evaluated
inside Coq.

Every way a python-action can end is covered, in particular a callable that raises a BaseException
that is not an Exception (sys.exit(), KeyboardInterrupt, GeneratorExit, a user subclass) after
having written some output: the exception must leave `execute` (outcome 3 = propagates), the
process-wide sys.stdout/sys.stderr must be the very objects they were before, and self.out/self.err
must hold what was written.

Encodings (lists of ints):
  outcome            0 ok / 1 TaskFailed / 2 TaskError / 3 a non-Exception BaseException escaped / 98 anything else
  stream in a cell   0 original object, 1+i Writer of execution i, 500+k sink object k, 999 unknown
  self.out/self.err  [-1] = None, else -2 followed by the chunk ids
  observation of one channel (Action.observe): cell, the attribute of every execution id, -3, chunks
                     that reached the original stream, then per sink -4 and its chunks
A chunk is a self-delimiting piece of text (`text(j)`); -7 stands for text that is not a sequence of chunks.

Part G (which verbosity a task is executed with): tasks with a verbosity of their own (None/0/1/2), with and without
setup tasks (a task with setup tasks is selected twice by Runner.select_task), under every global setting, through
Runner, MThreadRunner(1), DoitMain.run and the real command line (serial, -n 1 -P process).  The demanded live/captured
output follows the effective verbosity, whose values are Model/Action.v `effective_verbosity` evaluated inside Coq
(`eff_table`); the whole observation is compared with `vrun_ops` / `vrun_verbs` of the model.
  task.verbosity     the attribute after the run: 0/1/2, -1 = None, -9 = the run did not get to the task, 99 anything else
  -6                 separates the list of these attributes from the rest of the observation

Part H (runs that end with a user error): see the comment there.  Observation of an in-process run: per channel the cell
(0 = the object installed before the run, 999 = anything else), -3, the chunks that reached the original stream (the two
chunks the harness writes to sys.stdout / sys.stderr AFTER the run included).
"""
import io, itertools, os, re, signal, sys, threading
import common
from common import Outcome

PRE = ('From DoitV Require Import Base Action.\nOpen Scope Z_scope.\n'
       'Definition obs2 (ids so se : list nat) (ops : list sop) : list Z :=\n'
       '  observe ids so (srun false false ops) ++ observe ids se (srun false true ops).\n')
AOUT = {'ok': 0, 'failed': 1, 'error': 2}


class EscapingBase(BaseException):
    """a user exception that is not an Exception"""


BASE_ENDS = ('exit', 'exit0', 'exitmsg', 'kbd', 'base', 'genexit')
OK_ENDS = ('none', 'true', 'str', 'dict')
END_TAG = {'none': 'RNone', 'true': 'RTrue', 'false': 'RFalse', 'str': 'RStr', 'dict': 'RDict', 'other': 'ROther',
           'raise': 'RRaises', 'tfailed': 'RTaskFailed', 'terror': 'RTaskError'}
END_TAG.update({b: 'RBaseExc' for b in BASE_ENDS})
END_CLASS = {'exit': SystemExit, 'exit0': SystemExit, 'exitmsg': SystemExit, 'kbd': KeyboardInterrupt,
             'base': EscapingBase, 'genexit': GeneratorExit}


def end_outcome(kind):
    """documented outcome of a python-action whose callable ends this way"""
    if kind in OK_ENDS:
        return 0
    if kind in ('false', 'tfailed'):
        return 1
    if kind in BASE_ENDS:
        return 3
    return 2


def finish(kind):
    """end a callable the way `kind` says"""
    from doit.exceptions import TaskFailed, TaskError
    if kind == 'none':
        return None
    if kind == 'true':
        return True
    if kind == 'false':
        return False
    if kind == 'str':
        return 'text'
    if kind == 'dict':
        return {'a': 1}
    if kind == 'other':
        return 7
    if kind == 'tfailed':
        return TaskFailed('f')
    if kind == 'terror':
        return TaskError('e')
    if kind == 'raise':
        raise RuntimeError('boom')
    if kind == 'exit':
        sys.exit(3)
    if kind == 'exit0':
        sys.exit(0)
    if kind == 'exitmsg':
        sys.exit('bye')
    if kind == 'kbd':
        raise KeyboardInterrupt()
    if kind == 'base':
        raise EscapingBase('b')
    if kind == 'genexit':
        raise GeneratorExit()
    raise AssertionError(kind)


def classify_ret(ret):
    from doit.exceptions import TaskFailed, TaskError
    if ret is None:
        return 0
    if isinstance(ret, TaskFailed):
        return 1
    if isinstance(ret, TaskError):
        return 2
    return 99


def classify_exc(e):
    """an exception that left execute: 3 = a BaseException that is not an Exception"""
    return 98 if isinstance(e, Exception) else 3


class Streams:
    """install recording stdout/stderr for the duration of a block; always restore the real ones"""
    def __enter__(self):
        self.real = (sys.stdout, sys.stderr)
        self.out, self.err = io.StringIO(), io.StringIO()
        sys.stdout, sys.stderr = self.out, self.err
        return self

    def __exit__(self, *a):
        self.after = (sys.stdout, sys.stderr)
        sys.stdout, sys.stderr = self.real

    def restored(self):
        return self.after[0] is self.out and self.after[1] is self.err


def text(j):
    return 'k%d.%s\n' % (j, 'x' * (j % 3))


CHUNK = re.compile(r'k(\d+)\.(x*)\n')


def dec(s):
    """a concatenation of chunk texts -> chunk ids ([-7] if it is not one)"""
    ids, pos = [], 0
    while pos < len(s):
        m = CHUNK.match(s, pos)
        if not m or text(int(m.group(1))) != m.group(0):
            return [-7]
        ids.append(int(m.group(1)))
        pos = m.end()
    return ids


def dec_loose(s):
    """the chunks found in a text that may also hold other lines (messages of the reporter)"""
    return [int(m.group(1)) for m in CHUNK.finditer(s) if text(int(m.group(1))) == m.group(0)]


def attr_z(val):
    return [-1] if val is None else [-2] + dec(val)


# ------------------------------------------------------------------ reference semantics (oracle side)
def T(t):
    """stream term of Model/Action.v"""
    if t[0] == 'none':
        return 'SNone'
    if t[0] == 'orig':
        return 'SOrig'
    if t[0] == 'live':
        return '(SLive %d)' % t[1]
    return '(SWriter %d %s)' % (t[1], T(t[2]))


def mode_term(cap, live):
    if cap:
        return '(MCapture %s)' % T(live)
    return 'MKeep' if live[0] == 'none' else '(MRedirect %s)' % T(live)


class Sim:
    """What the property demands, written down independently of doit's code: an execution installs its
    capturing stream (or the stream it was given, capture off), everything written goes where the
    installed stream leads, and when the execution is over -- however it ended -- the streams that
    were installed before are installed again and the action holds what its capturing stream got.
    Also produces the sequence of events (`ops`) the Coq model is evaluated on."""
    def __init__(self):
        self.cur = [('orig',), ('orig',)]
        self.ops = []
        self.buf, self.attr, self.sink = {}, {}, {}
        self.orig = [[], []]

    def deliver(self, t, ch, c):
        while t[0] == 'writer':
            self.buf[(t[1], ch)].append(c)
            t = t[2]
        if t[0] == 'orig':
            self.orig[ch].append(c)
        elif t[0] == 'live':
            self.sink.setdefault(t[1], []).append(c)

    def write(self, ch, c):
        self.ops.append('Write %s %d' % ('true' if ch else 'false', c))
        self.deliver(self.cur[ch], ch, c)

    def fail(self, i):
        self.ops.append('Enter %d MFail MFail' % i)

    def enter(self, i, cap, lo, le):
        self.ops.append('Enter %d %s %s' % (i, mode_term(cap, lo), mode_term(cap, le)))
        token = (list(self.cur), cap)
        for ch, live in ((0, lo), (1, le)):
            if cap:
                self.buf[(i, ch)] = []
                self.cur[ch] = ('writer', i, live)
            elif live[0] != 'none':
                self.cur[ch] = live
        return token

    def exit(self, i, tag, token):
        self.ops.append('Exit %d %s' % (i, tag))
        self.cur = list(token[0])
        if token[1]:
            for ch in (0, 1):
                self.attr[(i, ch)] = list(self.buf[(i, ch)])

    def action(self, i, cap, lo, le, ws, end):
        tok = self.enter(i, cap, lo, le)
        for ch, j in ws:
            self.write(ch, j)
        self.exit(i, END_TAG[end], tok)

    @staticmethod
    def code(t):
        return {'orig': 0, 'none': -5}.get(t[0], (1 + t[1]) if t[0] == 'writer' else (500 + t[1]) if t[0] == 'live' else 999)

    def vector(self, ch, ids, sinks):
        v = [self.code(self.cur[ch])]
        for i in ids:
            a = self.attr.get((i, ch))
            v += [-1] if a is None else [-2] + a
        v += [-3] + self.orig[ch]
        for k in sinks:
            v += [-4] + self.sink.get(k, [])
        return v


def live_for(v):
    """Stream._get_out_err as documented: verbosity 0 nothing, 1 stderr, 2 both"""
    return (('orig',) if v == 2 else ('none',)), (('orig',) if v >= 1 else ('none',))


def explain(got, want, where):
    """sentence + shape for an observation that differs from what the property demands"""
    if got[0] != want[0]:
        return ('%s is not the original object after %s (it is %s)' % (
            '%s', where, 'a doit Writer' if 1 <= got[0] < 500 else 'another stream'), 'restore')
    return ('%s: captured / shown output differs from what was written after ' + where, 'capture')


# ------------------------------------------------------------------ A. python-action classification
def py_representatives():
    from doit.exceptions import TaskFailed, TaskError

    class StrSub(str):
        pass

    class DictSub(dict):
        pass

    class TFSub(TaskFailed):
        pass

    class Falsy:
        def __bool__(self):
            return False

    class BaseSub(SystemExit):
        pass

    def raiser(exc):
        def f():
            sys.stdout.write(text(1)); sys.stderr.write(text(2))
            raise exc
        return f

    def exiter(*a):
        def f():
            sys.stdout.write(text(1)); sys.stderr.write(text(2))
            sys.exit(*a)
        return f
    reps = [
        ('RTrue', lambda: True), ('RFalse', lambda: False), ('RNone', lambda: None),
        ('RStr', lambda: 'abc'), ('RStr', lambda: ''), ('RStr', lambda: StrSub('x')),
        ('RDict', lambda: {'a': 1}), ('RDict', lambda: {}), ('RDict', lambda: DictSub(k=2)),
        ('RTaskFailed', lambda: TaskFailed('no')), ('RTaskFailed', lambda: TFSub('no')),
        ('RTaskError', lambda: TaskError('bad')),
        ('ROther', lambda: 0), ('ROther', lambda: 1), ('ROther', lambda: 2), ('ROther', lambda: []),
        ('ROther', lambda: [1]), ('ROther', lambda: ()), ('ROther', lambda: (1, 2)), ('ROther', lambda: 1.5),
        ('ROther', lambda: b'bytes'), ('ROther', lambda: object()), ('ROther', lambda: Falsy()),
        ('ROther', lambda: {1, 2}), ('ROther', lambda: Exception('returned, not raised')),
        ('ROther', lambda: NotImplemented), ('ROther', lambda: 0.0),
        ('ROther', lambda: SystemExit(1)), ('ROther', lambda: KeyboardInterrupt()),     # returned, not raised
        ('RRaises', raiser(ValueError('v'))), ('RRaises', raiser(KeyError('k'))),
        ('RRaises', raiser(TaskFailed('raised'))), ('RRaises', raiser(TaskError('raised'))),
        ('RRaises', raiser(OSError(2, 'x'))), ('RRaises', raiser(StopIteration())),
        ('RRaises', raiser(AssertionError())), ('RRaises', raiser(ZeroDivisionError())),
        ('RBaseExc', exiter()), ('RBaseExc', exiter(0)), ('RBaseExc', exiter(3)), ('RBaseExc', exiter('message')),
        ('RBaseExc', raiser(SystemExit(2))), ('RBaseExc', raiser(BaseSub(4))),
        ('RBaseExc', raiser(KeyboardInterrupt())), ('RBaseExc', raiser(GeneratorExit())),
        ('RBaseExc', raiser(EscapingBase('user'))), ('RBaseExc', raiser(BaseException('plain'))),
    ]
    return reps


def part_py(ctx, out):
    from doit.action import PythonAction
    reps = py_representatives()
    cases = []
    for n, (tag, fn) in enumerate(reps):
        wrote = tag in ('RRaises', 'RBaseExc')
        with Streams() as st:
            act = PythonAction(fn)
            try:
                ret = act.execute()
                obs = classify_ret(ret)
            except BaseException as e:  # noqa
                obs = classify_exc(e)
        sets_result = int(act.result is not None)
        sets_values = int(act.result is not None and act.values is act.result)
        cases.append(dict(
            model='[aout_z (py_classify %s); zb (py_sets_result %s); zb (py_sets_values %s); 0]' % (tag, tag, tag),
            expected=[obs, sets_result, sets_values, 0 if st.restored() else 1],
            desc=('py', tag)))
        out.count('py:' + tag)
        out.nontrivial.add(('py', tag, len(cases)))
        # property oracle, independent of the model: the documented classification
        want = {'RTrue': 0, 'RNone': 0, 'RStr': 0, 'RDict': 0, 'RFalse': 1, 'RTaskFailed': 1, 'RBaseExc': 3}.get(tag, 2)
        if obs != want:
            out.violations.append(dict(what='python-action ending with %s classified %s, documented %s' % (tag, obs, want),
                                       shape='py-classify:%s' % tag, case=dict(tag=tag, representative=n)))
        if not st.restored():
            out.violations.append(dict(what='sys.stdout/stderr not restored after python-action (%s)' % tag,
                                       shape='py-restore:%s' % tag, case=dict(tag=tag, representative=n)))
        if wrote and (act.out, act.err) != (text(1), text(2)):
            out.violations.append(dict(what='python-action that wrote and then raised (%s): self.out/self.err are %r, written %r' % (
                tag, (act.out, act.err), (text(1), text(2))), shape='py-capture:%s' % tag, case=dict(tag=tag, representative=n)))
    return cases


# ------------------------------------------------------------------ B. cmd-action classification
def part_cmd(ctx, out):
    from doit.action import CmdAction
    statuses = list(range(256)) if not ctx.quick else sorted(set(list(range(0, 8)) + list(range(120, 132)) + [64, 200, 254, 255] + ctx.rng.sample(range(256), 40)))
    sigs = [signal.SIGHUP, signal.SIGINT, signal.SIGKILL, signal.SIGTERM, signal.SIGUSR1, signal.SIGSEGV, signal.SIGABRT]
    zs, obs = [], []
    for s in statuses:
        act = CmdAction('exit %d' % s)
        with Streams():
            ret = act.execute()
        zs.append(s); obs.append(classify_ret(ret))
        out.count('cmd:status')
    for s in statuses[:: (4 if ctx.quick else 1)]:
        act = CmdAction([sys.executable, '-S', '-c', 'import os; os._exit(%d)' % s], shell=False)
        with Streams():
            ret = act.execute()
        zs.append(s); obs.append(classify_ret(ret))
        out.count('cmd:status-list-form')
    for sg in sigs:
        # the child first restores the default disposition: a check started under nohup / as a background job of a
        # non-interactive shell hands SIGHUP / SIGINT down as ignored, and the child would then exit normally
        act = CmdAction([sys.executable, '-S', '-c',
                         'import os, signal\ntry:\n    signal.signal(%d, signal.SIG_DFL)\nexcept (OSError, ValueError):\n    pass\nos.kill(os.getpid(), %d)' % (int(sg), int(sg))], shell=False)
        with Streams():
            ret = act.execute()
        zs.append(-int(sg)); obs.append(classify_ret(ret))
        out.count('cmd:signal')
    for z, o in zip(zs, obs):
        want = 0 if z == 0 else (1 if z <= 125 else 2)
        out.nontrivial.add(('cmd', z))
        if o != want:
            out.violations.append(dict(what='cmd-action with exit status %d classified %d, documented %d' % (z, o, want),
                                       shape='cmd-classify:%d' % z, case=dict(status=z)))
    cases = [dict(model='map (fun z => aout_z (cmd_classify z)) %s' % common.zlist(zs), expected=obs, desc=('cmd', len(zs)))]
    # the command string computed by a callable (with and without a task, capture on and off)
    from doit.task import Task
    xs, xobs = [], []
    for how in ('string', 'raise') + BASE_ENDS:
        for rc in (0, 1, 126):
            for cap in (None, True, False):
                def cmd(how=how, rc=rc):
                    if how == 'string':
                        return 'exit %d' % rc
                    return finish(how)
                tk = None
                if cap is not None:
                    tk = Task('c', None, io={'capture': cap})
                    tk.init_options()
                act = CmdAction(cmd, task=tk)
                with Streams() as st:
                    try:
                        o = classify_ret(act.execute())
                    except BaseException as e:  # noqa
                        o = classify_exc(e)
                x = 'XString' if how == 'string' else ('XRaises' if how == 'raise' else 'XBaseExc')
                xs.append('aout_z (cmd_execute %s %d)' % (x, rc)); xobs.append(o)
                out.count('cmd:callable:%s' % x)
                out.nontrivial.add(('cmdx', how, rc, cap))
                want = 3 if x == 'XBaseExc' else (2 if x == 'XRaises' else (0 if rc == 0 else (1 if rc <= 125 else 2)))
                if o != want or not st.restored():
                    out.violations.append(dict(what='cmd-action whose command callable does %r (status %d): outcome %d, documented %d, streams restored=%s' % (
                        how, rc, o, want, st.restored()), shape='cmd-callable:%s' % x, case=dict(how=how, status=rc, capture=cap)))
    cases.append(dict(model='[%s]' % '; '.join(xs), expected=xobs, desc=('cmd-callable', len(xs))))
    return cases


# ------------------------------------------------------------------ C. Task.execute
def part_task(ctx, out):
    from doit.task import Task, Stream
    from doit.action import CmdAction
    from doit.exceptions import TaskFailed, TaskError
    rng = ctx.rng
    cases = []
    n = ctx.n(150, 1500)
    kinds = ['RTrue', 'RNone', 'RStr', 'RDict', 'RFalse', 'RTaskFailed', 'RTaskError', 'ROther', 'RRaises', 'cmd0', 'cmd1', 'cmd126',
             'RBaseExc', 'cmdbase']
    for ci in range(n):
        k = rng.choice([0, 1, 2, 3, 4, 5, 6])
        weights = [3, 3, 4, 6, 1, 1, 1, 1, 1, 2, 1, 1, 1, 0.5] if rng.random() < 0.7 else [1] * 14
        spec = rng.choices(kinds, weights=weights, k=k)
        actions, model_acts, tokens = [], [], {}
        ran = []
        for i, kd in enumerate(spec):
            tok = 100 + i
            if kd == 'cmdbase':
                def cmd(i=i, how=rng.choice(BASE_ENDS)):
                    ran.append(i)
                    finish(how)
                actions.append(CmdAction(cmd))
                model_acts.append('{| a_out := cmd_execute XBaseExc 0; a_result := None; a_values := [] |}')
                continue
            if kd.startswith('cmd'):
                status = int(kd[3:])
                actions.append('echo c%d; exit %d' % (i, status))
                tokens['c%d\n' % i] = tok
                o = 'AOk' if status == 0 else ('AFailed' if status <= 125 else 'AError')
                model_acts.append('{| a_out := %s; a_result := Some %d; a_values := [] |}' % (o, tok))
                continue
            vals = []
            if kd == 'RDict':
                vals = [(rng.randrange(4), rng.randrange(50)) for _ in range(rng.randrange(3))]
                vals = list(dict(vals).items())
            value = {'RTrue': True, 'RNone': None, 'RStr': 's%d' % i, 'RDict': {('k%d' % a): b for a, b in vals},
                     'RFalse': False, 'RTaskFailed': TaskFailed('f'), 'RTaskError': TaskError('e'), 'ROther': 7 + i,
                     'RRaises': None, 'RBaseExc': None}[kd]
            if kd == 'RStr':
                tokens[value] = tok

            def mk(kd=kd, value=value, i=i, how=rng.choice(BASE_ENDS)):
                def f():
                    ran.append(i)
                    if kd == 'RRaises':
                        raise RuntimeError('boom')
                    if kd == 'RBaseExc':
                        finish(how)
                    return value
                return f
            actions.append(mk())
            res = 'Some %d' % tok if kd in ('RStr', 'RDict') else 'None'
            model_acts.append('{| a_out := py_classify %s; a_result := %s; a_values := %s |}' % (
                kd, res, '[' + '; '.join('(%d, %d)' % kv for kv in vals) + ']'))
            if kd == 'RDict':
                tokens[id(value)] = tok
        task = Task('t', actions)
        with Streams() as st:
            try:
                ret = task.execute(Stream(0))
                obs = classify_ret(ret)
            except BaseException as e:  # noqa
                obs = classify_exc(e)
        r = task.result
        if r is None:
            rz = -1
        elif isinstance(r, dict):
            rz = tokens.get(id(r), -2)
        else:
            rz = tokens.get(r, -2)
        vz = []
        for kk, vv in task.values.items():
            vz += [int(kk[1:]), vv]
        # number of actions started: python ones via `ran`, cmd ones via their `.out`
        started = sum(1 for i, a in enumerate(task.actions) if (i in ran) or (getattr(a, 'out', None) is not None and spec[i].startswith('cmd')))
        expected = [obs, rz, started] + vz
        model = ('let x := task_execute [%s] None [] 0 in [aout_z (x_out x); match x_result x with Some r => r | None => -1 end; znat (x_ran x)] '
                 '++ flat_map (fun kv => [fst kv; snd kv]) (x_values x)') % '; '.join(model_acts)
        cases.append(dict(model=model, expected=expected, desc=('task', spec)))
        out.count('task:len%d' % k)
        if any(o not in ('RTrue', 'RNone', 'RStr', 'RDict', 'cmd0') for o in spec[:-1]) or len(spec) >= 2:
            out.nontrivial.add(('task', tuple(spec), tuple(vz)))
        # independent oracle: stops at first unsuccessful action; an escaping exception escapes
        okk = ('RTrue', 'RNone', 'RStr', 'RDict', 'cmd0')
        first_bad = next((i for i, s_ in enumerate(spec) if s_ not in okk), None)
        want_started = len(spec) if first_bad is None else first_bad + 1
        want_obs = 0 if first_bad is None else (
            3 if spec[first_bad] in ('RBaseExc', 'cmdbase') else 1 if spec[first_bad] in ('RFalse', 'RTaskFailed', 'cmd1') else 2)
        if started != want_started or obs != want_obs or not st.restored():
            out.violations.append(dict(what='Task.execute ran %d actions of %s (expected %d), outcome %d (expected %d), streams restored=%s' % (
                started, spec, want_started, obs, want_obs, st.restored()), shape='task-execute', case=dict(spec=spec)))
    if cases:
        out.samples.append({'task_execute_actions': cases[0]['desc'][1], 'observed': cases[0]['expected']})
    return cases


# ------------------------------------------------------------------ D. nested / sequential executions, every way of ending
OUT_SINKS, ERR_SINKS = [0, 2], [1, 3]


def gen_forest(rng, depth, ctr, pbase):
    """a forest of action executions.  node: id, kf (_prepare_kwargs fails), via ('action': PythonAction.execute
    called directly with out/err; 'task': through Task.execute at verbosity v), cap (task.io.capture),
    out/err ('none' | 'cur' = the stream installed at that moment | 'sink:k'), body (writes ['w', is_err, chunk]
    and nested executions ['x', node] in program order), end (how the callable ends if nothing escaped
    from a nested execution before), catch (the enclosing callable catches what escapes from this one)"""
    forest = []
    for _ in range(rng.choice([1, 2, 3]) if depth == 0 else rng.choice([0, 1, 1, 2])):
        i = ctr[0]; ctr[0] += 1
        node = dict(id=i, kf=rng.random() < 0.07, via='task' if rng.random() < 0.25 else 'action', cap=rng.random() < 0.7,
                    task=rng.random() < 0.5, v=rng.choice([0, 1, 2]), catch=rng.random() < 0.5, body=[])
        if node['via'] == 'task':
            node['out'] = 'cur' if node['v'] == 2 else 'none'
            node['err'] = 'cur' if node['v'] >= 1 else 'none'
        else:
            node['out'] = rng.choice(['none', 'none', 'cur', 'sink:%d' % rng.choice(OUT_SINKS)])
            node['err'] = rng.choice(['none', 'none', 'cur', 'sink:%d' % rng.choice(ERR_SINKS)])
        items = [['w', int(rng.random() < 0.4), None] for _ in range(rng.randrange(0, 4))]
        if depth < 2 and not node['kf']:
            items += [['x', c] for c in gen_forest(rng, depth + 1, ctr, pbase)]
            rng.shuffle(items)
        for it in items:
            if it[0] == 'w':
                it[2] = ctr[1]; ctr[1] += 1
        node['body'] = items
        node['end'] = rng.choice(BASE_ENDS) if rng.random() < pbase else rng.choice(['none', 'none', 'true', 'str', 'dict', 'false', 'other', 'raise', 'tfailed'])
        forest.append(node)
    return forest


def forest_ids(forest):
    ids = []
    for n in forest:
        ids.append(n['id'])
        ids += forest_ids([it[1] for it in n['body'] if it[0] == 'x'])
    return sorted(ids)


def sim_node(node, sim):
    """reference run of one node; True if an exception escapes from it"""
    i = node['id']
    if node['kf']:
        sim.fail(i)
        return False            # InvalidTask: an Exception, caught where the action was started

    def live(spec, ch):
        return ('none',) if spec == 'none' else (sim.cur[ch] if spec == 'cur' else ('live', int(spec.split(':')[1])))
    tok = sim.enter(i, node['cap'], live(node['out'], 0), live(node['err'], 1))
    escaped = False
    for it in node['body']:
        if it[0] == 'w':
            sim.write(it[1], it[2])
        elif sim_node(it[1], sim) and not it[1]['catch']:
            escaped = True
            break
    if not escaped:
        escaped = node['end'] in BASE_ENDS
    sim.exit(i, 'RBaseExc' if escaped else END_TAG[node['end']], tok)
    return escaped


class Rt:
    def __init__(self):
        self.sinks = {k: io.StringIO() for k in OUT_SINKS + ERR_SINKS}
        self.writers, self.acts = {}, {}
        self.unrestored, self.crash = [], []


def run_node(node, rt):
    """the real thing: may raise what escapes from the action"""
    from doit.action import PythonAction
    from doit.task import Task, Stream
    from doit.exceptions import InvalidTask
    i = node['id']

    def resolve(spec, cur):
        return None if spec == 'none' else (cur if spec == 'cur' else rt.sinks[int(spec.split(':')[1])])

    def body():
        if node['cap']:
            rt.writers[i] = (sys.stdout, sys.stderr)
        for it in node['body']:
            if it[0] == 'w':
                (sys.stderr if it[1] else sys.stdout).write(text(it[2]))
                continue
            try:
                run_node(it[1], rt)
            except Exception as e:      # nothing but InvalidTask (handled below) is expected here
                rt.crash.append(repr(e))
            except BaseException:
                if not it[1]['catch']:
                    raise
        return finish(node['end'])

    before = (sys.stdout, sys.stderr)
    try:
        io_ = {'capture': node['cap']}
        if node['kf']:
            def bad(task=None):  # default value on a reserved name -> _prepare_kwargs raises InvalidTask
                pass
            t = Task('n%d' % i, [bad], verbosity=node['v'], io=io_)
            try:
                if node['via'] == 'task':
                    t.execute(Stream(None))
                else:
                    t.actions[0].execute(resolve(node['out'], before[0]), resolve(node['err'], before[1]))
            except InvalidTask:
                pass
        elif node['via'] == 'task':
            t = Task('n%d' % i, [body], verbosity=node['v'], io=io_)
            rt.acts[i] = t.actions[0]
            t.execute(Stream(None))
        else:
            tk = Task('n%d' % i, None, io=io_) if (node['task'] or not node['cap']) else None
            if tk:
                tk.init_options()
            act = PythonAction(body, task=tk)
            rt.acts[i] = act
            act.execute(resolve(node['out'], before[0]), resolve(node['err'], before[1]))
    finally:
        # the property, per execution: the very objects that were installed before are installed again
        if sys.stdout is not before[0] or sys.stderr is not before[1]:
            rt.unrestored.append(i)


def stream_code(obj, orig, rt, ch):
    if obj is orig:
        return 0
    for k, s in rt.sinks.items():
        if obj is s:
            return 500 + k
    for i, pair in rt.writers.items():
        if obj is pair[ch]:
            return 1 + i
    return 999


def forest_case(forest):
    """run one forest for real and by the reference semantics"""
    ids = forest_ids(forest)
    sim = Sim()
    for node in forest:
        sim_node(node, sim)
    rt = Rt()
    with Streams() as st:
        for node in forest:
            try:
                run_node(node, rt)
            except Exception as e:  # noqa
                rt.crash.append(repr(e))
            except BaseException:
                pass                 # what escapes from a top-level action is caught by its caller
        cells = (sys.stdout, sys.stderr)
    got = []
    for ch, sinks in ((0, OUT_SINKS), (1, ERR_SINKS)):
        v = [stream_code(cells[ch], (st.out, st.err)[ch], rt, ch)]
        for i in ids:
            a = rt.acts.get(i)
            v += [-1] if a is None else attr_z((a.out, a.err)[ch])
        v += [-3] + dec((st.out, st.err)[ch].getvalue())
        for k in sinks:
            v += [-4] + dec(rt.sinks[k].getvalue())
        got.append(v)
    want = [sim.vector(0, ids, OUT_SINKS), sim.vector(1, ids, ERR_SINKS)]
    return dict(ids=ids, ops=sim.ops, got=got, want=want, unrestored=rt.unrestored, crash=rt.crash)


def forest_flags(forest):
    fl = set()
    for n in forest:
        if n['kf']:
            fl.add('kwargs_fail')
        if n['end'] in BASE_ENDS:
            fl.add('escaping')
        if not n['cap']:
            fl.add('nocapture')
        kids = [it[1] for it in n['body'] if it[0] == 'x']
        if kids:
            fl.add('nested')
        fl |= forest_flags(kids)
    return fl


def forest_violations(forest, r):
    vs = []
    flags = forest_flags(forest)
    suffix = ('-kwargs-fail' if 'kwargs_fail' in flags else '') + ('-escaping' if 'escaping' in flags else '')
    if r['unrestored']:
        vs.append(dict(what='sys.stdout/sys.stderr are not the objects they were before the execution of a python-action (executions %s of the case)%s' % (
            r['unrestored'], ' -- some callable raises SystemExit/KeyboardInterrupt/another BaseException' if 'escaping' in flags else ''),
            shape='restore-per-action' + suffix, case=dict(forest=forest)))
    for ch, name in ((0, 'sys.stdout'), (1, 'sys.stderr')):
        if r['got'][ch] != r['want'][ch]:
            msg, kind = explain(r['got'][ch], r['want'][ch], 'a properly nested sequence of python-actions%s%s' % (
                ' (one failing in _prepare_kwargs)' if 'kwargs_fail' in flags else '',
                ' (some ending with SystemExit/KeyboardInterrupt/another BaseException)' if 'escaping' in flags else ''))
            vs.append(dict(what=msg % name, shape='%s-nested%s' % (kind, suffix),
                           case=dict(forest=forest, channel=name, observed=r['got'][ch], demanded=r['want'][ch])))
    if r['crash']:
        vs.append(dict(what='unexpected exception from PythonAction.execute/Task.execute: %s' % r['crash'][:2], shape='nested-crash',
                       case=dict(forest=forest)))
    return vs


def part_restore_nested(ctx, out):
    cases = []
    for ci in range(ctx.n(360, 3000)):
        ctr = [1, 0]
        forest = gen_forest(ctx.rng, 0, ctr, [0.0, 0.25, 0.5][ci % 3])
        r = forest_case(forest)
        cases.append(dict(model='obs2 %s %s %s [%s]' % (common.coq_list(r['ids'], '%nat'), common.coq_list(OUT_SINKS, '%nat'),
                                                       common.coq_list(ERR_SINKS, '%nat'), '; '.join(r['ops'])),
                          expected=r['got'][0] + r['got'][1], desc=('nested', r['ops'])))
        flags = forest_flags(forest)
        out.count('restore:nested' + ''.join(':' + f for f in sorted(flags)))
        if len(r['ops']) >= 3:
            out.nontrivial.add(('nested', tuple(r['ops'])))
        out.violations += forest_violations(forest, r)
    if cases:
        out.samples.append({'nested_action_executions': cases[-1]['desc'][1], 'observed(stdout ++ stderr)': cases[-1]['expected']})
    return cases


def interleavings(k):
    """all sequences over Enter i / Exit i (each once, Enter before Exit) for i < k"""
    res = []
    def go(seq, entered, exited):
        if len(exited) == k:
            res.append(list(seq)); return
        for i in range(k):
            if i not in entered:
                go(seq + [('E', i)], entered | {i}, exited)
            elif i not in exited:
                go(seq + [('X', i)], entered, exited | {i})
    go([], frozenset(), frozenset())
    return res


def is_nested(seq):
    stack = []
    for op, i in seq:
        if op == 'E':
            stack.append(i)
        else:
            if not stack or stack[-1] != i:
                return False
            stack.pop()
    return True


def run_interleaving(seq, k, ends):
    """k threads, each executing one PythonAction; the callable blocks so that swaps/restores
    happen in exactly the order `seq`; callable i ends the way ends[i] says"""
    from doit.action import PythonAction
    go_in = [threading.Event() for _ in range(k)]
    inside = [threading.Event() for _ in range(k)]
    go_out = [threading.Event() for _ in range(k)]
    done = [threading.Event() for _ in range(k)]
    mine = {}

    def body(i):
        go_in[i].wait(10)
        def f():
            mine[i] = sys.stdout
            inside[i].set()
            go_out[i].wait(10)
            return finish(ends[i])
        try:
            PythonAction(f).execute()
        except BaseException:  # noqa
            pass
        done[i].set()
    ths = [threading.Thread(target=body, args=(i,), daemon=True) for i in range(k)]
    with Streams() as st:
        for t in ths:
            t.start()
        for op, i in seq:
            if op == 'E':
                go_in[i].set(); inside[i].wait(10)
            else:
                go_out[i].set(); done[i].wait(10)
        for t in ths:
            t.join(10)
        cur = sys.stdout
        cell = 0 if cur is st.out else next((1 + i for i, w in mine.items() if w is cur), 999)
    return cell


def part_restore_threads(ctx, out):
    cases = []
    for k in ([2] if ctx.quick else [2, 3]):
        for seq in interleavings(k):
            for ends in itertools.product(('none', 'exit'), repeat=k) if k == 2 else [tuple(ctx.rng.choice(['none', 'exit', 'kbd', 'raise']) for _ in range(k))]:
                cell = run_interleaving(seq, k, ends)
                ops = ['Enter %d (MCapture SNone) (MCapture SNone)' % i if op == 'E' else 'Exit %d %s' % (i, END_TAG[ends[i]]) for op, i in seq]
                cases.append(dict(model='[stream_z (s_cell (srun false false [%s]))]' % '; '.join(ops), expected=[cell], desc=('threads', ops)))
                out.count('restore:threads:%s' % ('nested' if is_nested(seq) else 'overlap'))
                out.nontrivial.add(('threads', tuple(ops)))
                if cell != 0:
                    shape = 'restore-nested' if is_nested(seq) else 'thread-overlap-python-actions'
                    out.violations.append(dict(what='sys.stdout left as a doit Writer after python-actions overlapping in different threads',
                                               shape=shape, case=dict(ops=ops)))
    out.samples.append({'thread_interleaving': cases[-1]['desc'][1], 'final_stream': cases[-1]['expected']})
    return cases


# ------------------------------------------------------------------ E. capture: one task, every way of ending
def gen_acts(rng, ctr, n, pbase, ends=None):
    acts = []
    for _ in range(n):
        ws = [[int(rng.random() < 0.4), None] for _ in range(rng.randrange(0, 5))]
        for w in ws:
            w[1] = ctr[1]; ctr[1] += 1
        end = rng.choice(BASE_ENDS) if rng.random() < pbase else rng.choice(ends or ['none', 'none', 'true', 'str', 'dict', 'false', 'other', 'raise', 'tfailed', 'terror'])
        acts.append(dict(id=ctr[0], ws=ws, end=end))
        ctr[0] += 1
    return acts


def coq_acts(acts):
    return '[' + '; '.join('{| as_id := %d; as_ws := [%s]; as_tag := %s |}' % (
        a['id'], '; '.join('(%s, %d)' % ('true' if ch else 'false', j) for ch, j in a['ws']), END_TAG[a['end']]) for a in acts) + ']'


def mk_callable(a, reg=None, with_task=False):
    def f():
        for ch, j in a['ws']:
            (sys.stderr if ch else sys.stdout).write(text(j))
        return finish(a['end'])
    if not with_task:
        return f

    def g(task):
        reg[a['id']] = task
        return f()
    return g


def sim_task(sim, cap, v, acts):
    """reference run of Task.execute; returns (outcome, class of the escaping exception or None)"""
    lo, le = live_for(v)
    for a in acts:
        sim.action(a['id'], cap, lo, le, a['ws'], a['end'])
        o = end_outcome(a['end'])
        if o != 0:
            return o, END_CLASS.get(a['end'])
    return 0, None


def task_case(spec):
    from doit.task import Task, Stream
    cap, v, acts = spec['cap'], spec['v'], spec['acts']
    ids = [a['id'] for a in acts]
    sim = Sim()
    want_o, want_cls = sim_task(sim, cap, v, acts)
    task = Task('t', [mk_callable(a) for a in acts], verbosity=v, io={'capture': cap})
    escaped = None
    with Streams() as st:
        try:
            obs = classify_ret(task.execute(Stream(None)))
        except BaseException as e:  # noqa
            obs, escaped = classify_exc(e), type(e)
        cells = (sys.stdout, sys.stderr)
    got = []
    for ch in (0, 1):
        v_ = [0 if cells[ch] is (st.out, st.err)[ch] else 999]
        for a in task.actions:
            v_ += attr_z((a.out, a.err)[ch])
        v_ += [-3] + dec((st.out, st.err)[ch].getvalue())
        got.append(v_)
    return dict(ids=ids, got=got, want=[sim.vector(0, ids, []), sim.vector(1, ids, [])], obs=obs, want_obs=want_o,
                escaped=escaped, want_cls=want_cls)


def task_violations(spec, r, where='Task.execute', shape='task'):
    vs = []
    esc = any(a['end'] in BASE_ENDS for a in spec.get('acts', [])) or any(a['end'] in BASE_ENDS for t in spec.get('tasks', []) for a in t['acts'])
    suffix = '-escaping' if esc else ''
    for ch, name in ((0, 'sys.stdout'), (1, 'sys.stderr')):
        if r['got'][ch] != r['want'][ch]:
            msg, kind = explain(r['got'][ch], r['want'][ch], '%s%s' % (where, ' (an action raises SystemExit/KeyboardInterrupt/another BaseException)' if esc else ''))
            vs.append(dict(what=msg % name, shape='%s-%s%s' % (kind, shape, suffix),
                           case=dict(spec=spec, channel=name, observed=r['got'][ch], demanded=r['want'][ch])))
    if r['obs'] != r['want_obs'] or (r['want_cls'] is not None and r['escaped'] is not r['want_cls']):
        vs.append(dict(what='%s: outcome %s (escaping %s), documented %s (escaping %s)' % (where, r['obs'], r['escaped'], r['want_obs'], r['want_cls']),
                       shape='outcome-%s%s' % (shape, suffix), case=dict(spec=spec)))
    return vs


def part_capture(ctx, out):
    from doit.task import Task, Stream
    rng = ctx.rng
    cases = []
    for ci in range(ctx.n(300, 2000)):
        ctr = [0, 0]
        spec = dict(cap=rng.random() < 0.75, v=rng.choice([0, 1, 2]), acts=gen_acts(rng, ctr, 1 if ci % 2 == 0 else rng.choice([2, 3, 4]), [0.0, 0.6][ci % 4 // 2]))
        r = task_case(spec)
        ids = common.coq_list(r['ids'], '%nat')
        cap = 'true' if spec['cap'] else 'false'
        cases.append(dict(model='let acts := %s in obs2 %s [] [] (task_ops %s %d acts) ++ [aout_z (task_outcome acts)]' % (coq_acts(spec['acts']), ids, cap, spec['v']),
                          expected=r['got'][0] + r['got'][1] + [r['obs']], desc=('task-capture', spec)))
        if len(spec['acts']) == 1:
            a = spec['acts'][0]
            ws = '[' + '; '.join('(%s, %d)' % ('true' if ch else 'false', j) for ch, j in a['ws']) + ']'
            g0, g1 = r['got']
            k0, k1 = g0.index(-3), g1.index(-3)
            cases.append(dict(model=('let c := py_capture %s %d %s %s in attr_z (c_out c) ++ attr_z (c_err c) ++ [-3] ++ c_live_out c ++ [-3] ++ c_live_err c '
                                     '++ [stream_z (c_cell_out c); stream_z (c_cell_err c)]') % (cap, spec['v'], ws, END_TAG[a['end']]),
                              expected=g0[1:k0] + g1[1:k1] + g0[k0:] + g1[k1:] + [g0[0], g1[0]], desc=('capture', spec)))
        out.count('capture:py:%s:v%d:%s' % ('on' if spec['cap'] else 'off', spec['v'], 'escaping' if r['want_obs'] == 3 else 'other'))
        if sum(len(a['ws']) for a in spec['acts']) >= 2:
            out.nontrivial.add(('cap', spec['cap'], spec['v'], tuple((a['end'], tuple(map(tuple, a['ws']))) for a in spec['acts'])))
        out.violations += task_violations(spec, r)
    # big chunks: byte-level behaviour of StringIO / Writer, exercised (not modelled)
    for ci in range(ctx.n(30, 200)):
        v = rng.choice([0, 1, 2])
        end = rng.choice(['none', 'raise', 'exit', 'kbd'])
        big = [('chunk%d-%s\n' % (j, 'x' * rng.choice([0, 1, 10, 1000, 70000 if rng.random() < 0.1 else 5])), rng.random() < 0.4) for j in range(rng.randrange(1, 7))]

        def f():
            for s, is_err in big:
                (sys.stderr if is_err else sys.stdout).write(s)
            return finish(end)
        task = Task('t', [f], verbosity=v)
        with Streams() as st:
            try:
                task.execute(Stream(None))
            except BaseException:  # noqa
                pass
        act = task.actions[0]
        wo, we = ''.join(s for s, e in big if not e), ''.join(s for s, e in big if e)
        out.count('capture:py:big')
        if (act.out, act.err) != (wo, we) or st.out.getvalue() != (wo if v == 2 else '') or st.err.getvalue() != (we if v >= 1 else '') or not st.restored():
            out.violations.append(dict(what='python-action output (large chunks, ending with %r) not captured completely/in order (verbosity %d)' % (end, v),
                                       shape='capture-py-big', case=dict(verbosity=v, end=end, sizes=[len(s) for s, _ in big])))
    # cmd-actions: byte-level capture is library behaviour (pipes, threads, decoding): exercised only
    n_cmd = 0
    unit = {'ascii': b'ab', 'badutf8': b'\xff\xfe', 'utf8-3byte': '€'.encode('utf-8'), 'utf8-mixed': 'aé€\U0001F600'.encode('utf-8')}
    for size in ([0, 1, 4096, 8191, 8192, 8193, 24576, 65536, 300000] if ctx.quick else [0, 1, 100, 4095, 4096, 4097, 8190, 8191, 8192, 8193, 16383, 16384, 16385, 24576, 65535, 65536, 65537, 300000, 2000000]):
        for v in (0, 1, 2):
            for mode in ('ascii', 'badutf8', 'utf8-3byte', 'utf8-mixed'):
                for nl in ((False,) if ctx.quick and mode in ('ascii', 'badutf8') else (False, True)):
                    u = unit[mode]
                    reps = size // len(u)
                    # one long line (nl=False) or many lines; an offset byte shifts multi-byte characters across buffer boundaries
                    off = b'x' * (size % 3)
                    body = off + u * reps
                    if nl and reps > 10:
                        body = off + (u * 7 + b'\n') * (reps // 7)
                    payload = body + b'\n'
                    script = ('import sys; u=%r; p=%r+u*%d if not %r else %r+(u*7+b"\\n")*%d; p=p+b"\\n"; '
                              'sys.stdout.buffer.write(p); sys.stdout.flush(); sys.stderr.buffer.write(b"E"+p); sys.stderr.flush()'
                              % (u, off, reps, bool(nl and reps > 10), off, reps // 7))
                    task = Task('c', [[sys.executable, '-S', '-c', script]], verbosity=v)
                    with Streams() as st:
                        ret = task.execute(Stream(None))
                    act = task.actions[0]
                    want = payload.decode('utf-8', 'replace')
                    n_cmd += 1
                    out.count('capture:cmd:%s' % mode)
                    ok = (ret is None and act.out == want and act.err == 'E' + want and act.result == want + 'E' + want
                          and st.out.getvalue() == (want if v == 2 else '') and st.err.getvalue() == ('E' + want if v >= 1 else ''))
                    if not ok or not st.restored():
                        out.violations.append(dict(what='cmd-action output of %d bytes (%s, %s) not captured intact at verbosity %d' % (len(payload), mode, 'many lines' if nl else 'one line', v),
                                                   shape='capture-cmd', case=dict(size=size, verbosity=v, mode=mode, lines=bool(nl))))
    out.extra['cmd_capture_runs_exercised_only'] = n_cmd
    return cases


# ------------------------------------------------------------------ F. whole runs
ROUTES = ('serial', 'thread', 'main', 'main-thread')


def gen_run(rng, route, pbase):
    ctr = [0, 0]
    tasks = []
    # the worker of the thread runner hands over SystemExit / KeyboardInterrupt / Exception only
    base = ('exit', 'exit0', 'exitmsg', 'kbd') if 'thread' in route else BASE_ENDS
    for _ in range(rng.choice([1, 2, 3])):
        acts = gen_acts(rng, ctr, rng.choice([1, 1, 2, 3]), 0.0, ends=['none', 'none', 'none', 'true', 'str', 'dict', 'dict', 'false', 'raise'])
        tasks.append(dict(cap=rng.random() < 0.75, acts=acts,
                          teardown=gen_acts(rng, ctr, rng.choice([0, 0, 1, 2]), 0.0, ends=['none', 'none', 'true', 'false', 'raise'])))
    if rng.random() < pbase:
        a = rng.choice([a for t in tasks for a in t['acts']])
        a['end'] = rng.choice(base)
    return dict(route=route, v=rng.choice([0, 1, 2]), tasks=tasks)


def sim_run(sim, spec):
    v = spec['v']
    tds = []
    res = (0, None)
    for t in spec['tasks']:
        tds.insert(0, t)
        res = sim_task(sim, t['cap'], v, t['acts'])
        if res[0] != 0:
            break
    for t in tds:
        sim_task(sim, t['cap'], v, t['teardown'])
    return res


def run_case(spec, tmp, tag):
    """one run for real (route: serial Runner / MThreadRunner with one worker, built by hand; DoitMain.run
    in-process, serial and -n 1 -P thread) and by the reference semantics"""
    from doit.task import Task, Stream
    ids = [a['id'] for t in spec['tasks'] for a in t['acts'] + t['teardown']]
    sim = Sim()
    want_o, want_cls = sim_run(sim, spec)
    reg = {}
    names = ['t%d' % n for n in range(len(spec['tasks']))]

    def attrs(n, t):
        d = dict(actions=[mk_callable(a, reg, True) for a in t['acts']], io={'capture': t['cap']})
        if t['teardown']:
            d['teardown'] = [mk_callable(a, reg, True) for a in t['teardown']]
        if n:
            d['task_dep'] = [names[n - 1]]
        return d
    escaped, crash = None, None
    db = os.path.join(tmp, '%s.db' % tag)

    def guarded(fn):
        """the master of the thread runner waits for its worker for ever: do not let a worker that died hang the check"""
        if 'thread' not in spec['route']:
            return fn()
        box = []

        def target():
            try:
                box.append(('rc', fn()))
            except BaseException as e:  # noqa
                box.append(('exc', e))
        th = threading.Thread(target=target, daemon=True)
        th.start()
        th.join(60)
        if not box:
            raise RuntimeError('the run did not end within 60 s')
        if box[0][0] == 'exc':
            raise box[0][1]
        return box[0][1]
    with Streams() as st:
        try:
            if spec['route'] in ('serial', 'thread'):
                from doit.control import TaskControl
                from doit.runner import Runner, MThreadRunner
                from doit.dependency import Dependency, DbmDB
                from doit.reporter import ConsoleReporter
                tl = [Task(names[n], **attrs(n, t)) for n, t in enumerate(spec['tasks'])]
                tc = TaskControl(tl)
                tc.process(None)
                dep = Dependency(DbmDB, db)
                rep = ConsoleReporter(io.StringIO(), {})
                if spec['route'] == 'serial':
                    runner = Runner(dep, rep, stream=Stream(spec['v']))
                else:
                    runner = MThreadRunner(dep, rep, stream=Stream(spec['v']), num_process=1)
                rc = guarded(lambda: runner.run_all(tc.task_dispatcher()))
            else:
                from doit.doit_cmd import DoitMain
                from doit.cmd_base import ModuleTaskLoader
                ns = {'DOIT_CONFIG': {'dep_file': db}}
                for n, t in enumerate(spec['tasks']):
                    ns['task_' + names[n]] = (lambda d: (lambda: d))(attrs(n, t))
                args = ['run', '-o', os.path.join(tmp, '%s.report' % tag), '-v', str(spec['v'])]
                if spec['route'] == 'main-thread':
                    args += ['-n', '1', '-P', 'thread']
                rc = guarded(lambda: DoitMain(ModuleTaskLoader(ns)).run(args))
            obs = rc if rc in (0, 1, 2) else 98
        except BaseException as e:  # noqa
            obs, escaped = classify_exc(e), type(e)
            if obs == 98:
                crash = repr(e)
        cells = (sys.stdout, sys.stderr)
    got = []
    for ch in (0, 1):
        v_ = [0 if cells[ch] is (st.out, st.err)[ch] else 999]
        for n, t in enumerate(spec['tasks']):
            for which, lst in (('actions', t['acts']), ('teardown', t['teardown'])):
                for p, a in enumerate(lst):
                    tk = reg.get(a['id'])
                    v_ += [-1] if tk is None else attr_z((getattr(tk, which)[p].out, getattr(tk, which)[p].err)[ch])
        # the reporter may add lines of its own on the original stderr (failing teardown): only the chunks are compared
        v_ += [-3] + dec_loose((st.out, st.err)[ch].getvalue())
        got.append(v_)
    return dict(ids=ids, got=got, want=[sim.vector(0, ids, []), sim.vector(1, ids, [])], obs=obs, want_obs=want_o,
                escaped=escaped, want_cls=want_cls, crash=crash, raw=(st.out.getvalue()[:300], st.err.getvalue()[:300]))


def coq_run(spec):
    return '[' + '; '.join('{| t_capture := %s; t_acts := %s; t_teardown := %s |}' % (
        'true' if t['cap'] else 'false', coq_acts(t['acts']), coq_acts(t['teardown'])) for t in spec['tasks']) + ']'


def part_runs(ctx, out):
    rng = ctx.rng
    tmp = ctx.subdir('runs')
    cases = []
    for ci in range(ctx.n(240, 1600)):
        route = ROUTES[ci % 4]
        spec = gen_run(rng, route, 0.6)
        r = run_case(spec, tmp, 'r%d' % ci)
        cases.append(dict(model='let ts := %s in obs2 %s [] [] (run_ops %d ts []) ++ [aout_z (run_outcome ts)]' % (
            coq_run(spec), common.coq_list(r['ids'], '%nat'), spec['v']),
            expected=r['got'][0] + r['got'][1] + [r['obs']], desc=('run', spec)))
        out.count('run:%s:%s' % (route, 'escaping' if r['want_obs'] == 3 else 'returns'))
        out.nontrivial.add(('run', route, spec['v'], tuple((t['cap'], tuple(a['end'] for a in t['acts']), len(t['teardown'])) for t in spec['tasks']),
                            tuple(r['want'][0]), tuple(r['want'][1])))
        out.violations += task_violations(spec, r, where='a run (%s)' % route, shape='run')
        if r['crash']:
            out.violations.append(dict(what='run (%s) ended with an unexpected exception %s' % (route, r['crash']), shape='run-crash', case=dict(spec=spec)))
    if cases:
        out.samples.append({'run': cases[-1]['desc'][1], 'observed(stdout ++ stderr ++ [outcome])': cases[-1]['expected']})
    return cases


# ------------------------------------------------------------------ G. which verbosity a task is executed with
# Runs of tasks that have a verbosity of their own (None/0/1/2) and setup tasks, under every global setting:
# Runner / MThreadRunner(1) built by hand with Stream(verbosity, force_global); DoitMain.run in-process (serial and
# -n 1 -P thread) and the real command line in a sub-process (serial and -n 1 -P process) with the verbosity given by
# DOIT_CONFIG and/or -v.  Observed: what every action holds as self.out/self.err, what reached the original
# stdout/stderr (= shown live), the attribute task.verbosity of every task afterwards, the outcome of the run.
# Extra encodings: task.verbosity None = -1, a task the run did not get to = -9; -6 separates the attribute list.
VROUTES = ('serial', 'thread', 'main', 'main-thread')
CLI_ROUTES = ('cli', 'cli-process')
SV = (None, 0, 1, 2)
HAND_CFG = [(v, f) for v in SV for f in (False, True)]
MAIN_CFG = [(cli, cfg) for cli in SV for cfg in SV]


def oz(v):
    return 'None' if v is None else '(Some %d)' % v


def is_hand(route):
    return route in ('serial', 'thread')


def stream_term(spec):
    if is_hand(spec['route']):
        return '(mk_stream %s %s)' % (oz(spec['sv']), 'true' if spec['force'] else 'false')
    return '(cmd_stream %s %s)' % (oz(spec['cli']), oz(spec['cfg']))


def eff_key(spec, verb):
    return ('hand', spec['sv'], bool(spec['force']), verb) if is_hand(spec['route']) else ('cmd', spec['cli'], spec['cfg'], verb)


def documented_eff(key):
    """docstring of Stream: 1) command line (forced) 2) task value 3) other config; default 1"""
    if key[0] == 'hand':
        _, sv, force, verb = key
        if sv is not None and force:
            return sv
        return verb if verb is not None else (sv if sv is not None else 1)
    _, cli, cfg, verb = key
    return cli if cli is not None else verb if verb is not None else cfg if cfg is not None else 1


def eff_table(ctx, strict=True):
    """effective verbosity for every (global setting, task value): Model/Action.v evaluated inside Coq"""
    keys = [('hand', sv, f, tv) for sv, f in HAND_CFG for tv in SV] + [('cmd', cli, cfg, tv) for cli, cfg in MAIN_CFG for tv in SV]
    items = []
    for k in keys:
        if k[0] == 'hand':
            items.append('effective_verbosity (mk_stream %s %s) %s' % (oz(k[1]), 'true' if k[2] else 'false', oz(k[3])))
        else:
            items.append('effective_verbosity (cmd_stream %s %s) %s' % (oz(k[1]), oz(k[2]), oz(k[3])))
    try:
        outs = common.coq_eval(ctx, PRE, items, tag='eff')
        return {k: int(o.replace('%Z', '').strip(' ()')) for k, o in zip(keys, outs)}
    except Exception as e:  # noqa
        if strict:
            raise
        print('(model not evaluated: %s; using the documented priority)' % str(e)[:200])
        return {k: documented_eff(k) for k in keys}


def gen_vacts(rng, ctr, n, ends):
    """like gen_acts, but every action writes to both channels (so that every verbosity shows)"""
    acts = gen_acts(rng, ctr, n, 0.0, ends=ends)
    for a in acts:
        for ch in (0, 1):
            if not any(w[0] == ch for w in a['ws']):
                a['ws'].insert(rng.randrange(len(a['ws']) + 1), [ch, ctr[1]])
                ctr[1] += 1
    return acts


def gen_stask(rng, ctr, verb):
    return dict(verb=verb, cap=rng.random() < 0.8,
                acts=gen_vacts(rng, ctr, rng.choice([1, 1, 2]), ['none', 'none', 'none', 'true', 'str', 'dict', 'false', 'raise']),
                teardown=gen_vacts(rng, ctr, rng.choice([0, 0, 1]), ['none', 'none', 'true', 'false', 'raise']))


def gen_vrun(rng, route, k, pbase):
    """k: index in the systematic sweep over (global setting x own verbosity of a task WITH setup tasks)"""
    ctr = [0, 0]
    spec = dict(route=route, chain=rng.random() < 0.5)
    if is_hand(route):
        spec['sv'], spec['force'] = HAND_CFG[k % len(HAND_CFG)]
        first = SV[(k // len(HAND_CFG)) % 4]
    else:
        spec['cli'], spec['cfg'] = MAIN_CFG[k % len(MAIN_CFG)]
        first = SV[(k // len(MAIN_CFG)) % 4]
    vts = []
    for n in range(rng.choice([1, 2, 2, 3])):
        nset = rng.choice([1, 1, 2]) if n == 0 else rng.choice([0, 0, 1, 2])
        setup = [gen_stask(rng, ctr, rng.choice(SV)) for _ in range(nset)]
        t = gen_stask(rng, ctr, first if n == 0 else rng.choice(SV))
        t['setup'] = setup
        vts.append(t)
    if rng.random() < 0.5:      # the interesting task is not always the first one
        vts.reverse()
    spec['vtasks'] = vts
    if rng.random() < pbase and route not in CLI_ROUTES:
        base = ('exit', 'exit0', 'exitmsg', 'kbd') if 'thread' in route else BASE_ENDS
        a = rng.choice([a for t in vts for s in t['setup'] + [t] for a in s['acts']])
        a['end'] = rng.choice(base)
    return spec


def vunits(spec):
    """(name, visited twice, task) in execution order -- Model/Action.v units_of"""
    us = []
    for n, t in enumerate(spec['vtasks']):
        for j, s_ in enumerate(t['setup']):
            us.append(('m%ds%d' % (n, j), False, s_))
        us.append(('m%d' % n, bool(t['setup']), t))
    return us


def coq_stask(t):
    return '{| st_verb := %s; st_capture := %s; st_acts := %s; st_teardown := %s |}' % (
        oz(t['verb']), 'true' if t['cap'] else 'false', coq_acts(t['acts']), coq_acts(t['teardown']))


def coq_vtasks(spec):
    return '[' + '; '.join('{| vt_task := %s; vt_setup := [%s] |}' % (coq_stask(t), '; '.join(coq_stask(s_) for s_ in t['setup']))
                           for t in spec['vtasks']) + ']'


def sim_vrun(sim, spec, eff):
    """what the property demands of such a run; also the verbosity every task must have been executed with"""
    tds, res, verbs = [], (0, None), []
    stopped = False
    for name, twice, t in vunits(spec):
        if stopped:
            verbs.append(-9)
            continue
        v = eff[eff_key(spec, t['verb'])]
        verbs.append(v)
        tds.insert(0, (t, v))
        res = sim_task(sim, t['cap'], v, t['acts'])
        stopped = res[0] != 0
    for t, v in tds:
        sim_task(sim, t['cap'], v, t['teardown'])
    return res, verbs


def vtask_attrs(name, t, reg, names, chain):
    d = dict(actions=[mk_callable(a, reg, True) for a in t['acts']], io={'capture': t['cap']}, verbosity=t['verb'])
    if t['teardown']:
        d['teardown'] = [mk_callable(a, reg, True) for a in t['teardown']]
    if t.get('setup'):
        d['setup'] = ['%ss%d' % (name, j) for j in range(len(t['setup']))]
    if chain and 's' not in name and name != 'm0':
        d['task_dep'] = ['m%d' % (int(name[1:]) - 1)]
    return d


DODO_HEAD = r"""
import sys, re
class EscapingBase(BaseException):
    pass
def text(j):
    return 'k%d.%s\n' % (j, 'x' * (j % 3))
def finish(kind):
    if kind == 'none': return None
    if kind == 'true': return True
    if kind == 'false': return False
    if kind == 'str': return 'text'
    if kind == 'dict': return {'a': 1}
    if kind == 'raise': raise RuntimeError('boom')
    raise AssertionError(kind)
def mk(ws, end):
    def f():
        for ch, j in ws:
            (sys.stderr if ch else sys.stdout).write(text(j))
        return finish(end)
    return f
"""


def vrun_cli(spec, tmp, tag):
    """the real command line, in a sub-process: live output = what arrives on its stdout/stderr; exit status"""
    import subprocess
    d = os.path.join(tmp, tag)
    os.makedirs(d, exist_ok=True)
    cfg = {'dep_file': os.path.join(d, 'db')}
    if spec['cfg'] is not None:
        cfg['verbosity'] = spec['cfg']
    lines = [DODO_HEAD, 'DOIT_CONFIG = %r' % cfg]
    for name, twice, t in vunits(spec):
        attrs = ['actions=[%s]' % ', '.join('mk(%r, %r)' % (a['ws'], a['end']) for a in t['acts']),
                 'io={"capture": %r}' % t['cap'], 'verbosity=%r' % t['verb']]
        if t['teardown']:
            attrs.append('teardown=[%s]' % ', '.join('mk(%r, %r)' % (a['ws'], a['end']) for a in t['teardown']))
        if t.get('setup'):
            attrs.append('setup=%r' % ['%ss%d' % (name, j) for j in range(len(t['setup']))])
        if spec['chain'] and 's' not in name and name != 'm0':
            attrs.append('task_dep=[%r]' % ('m%d' % (int(name[1:]) - 1)))
        lines.append('def task_%s():\n    return dict(%s)' % (name, ', '.join(attrs)))
    with open(os.path.join(d, 'dodo.py'), 'w') as f:
        f.write('\n'.join(lines) + '\n')
    args = [common.PY, '-m', 'doit', 'run', '-f', os.path.join(d, 'dodo.py'), '-o', os.path.join(d, 'report')]
    if spec['cli'] is not None:
        args += ['-v', str(spec['cli'])]
    if spec['route'] == 'cli-process':
        args += ['-n', '1', '-P', 'process']
    args += ['m%d' % n for n in range(len(spec['vtasks']))]
    p = subprocess.run(args, cwd=d, env=common.impl_env(), stdout=subprocess.PIPE, stderr=subprocess.PIPE, text=True, timeout=120)
    return p.returncode, p.stdout, p.stderr


def vrun_case(spec, tmp, tag, eff):
    """one run for real and by the reference semantics"""
    from doit.task import Task, Stream
    units = vunits(spec)
    ids = [a['id'] for _, _, t in units for a in t['acts'] + t['teardown']]
    sim = Sim()
    (want_o, want_cls), want_verbs = sim_vrun(sim, spec, eff)
    want = [sim.vector(0, ids, []), sim.vector(1, ids, [])]
    route = spec['route']
    if route in CLI_ROUTES:
        try:
            rc, o, e = vrun_cli(spec, tmp, tag)
            crash = None if rc in (0, 1, 2) else 'exit status %s: %s' % (rc, e[-300:])
        except Exception as ex:  # noqa
            rc, o, e, crash = 98, '', '', repr(ex)
        got = [[-3] + dec_loose(o), [-3] + dec_loose(e)]
        want = [w[w.index(-3):] for w in want]
        return dict(ids=ids, got=got, want=want, obs=rc if rc in (0, 1, 2) else 98, want_obs=want_o, escaped=None, want_cls=None,
                    crash=crash, verbs=None, want_verbs=want_verbs, raw=(o[:300], e[:300]))
    reg = {}
    mains = ['m%d' % n for n in range(len(spec['vtasks']))]
    escaped, crash = None, None
    db = os.path.join(tmp, '%s.db' % tag)

    def guarded(fn):
        if 'thread' not in route:
            return fn()
        box = []

        def target():
            try:
                box.append(('rc', fn()))
            except BaseException as e:  # noqa
                box.append(('exc', e))
        th = threading.Thread(target=target, daemon=True)
        th.start()
        th.join(60)
        if not box:
            raise RuntimeError('the run did not end within 60 s')
        if box[0][0] == 'exc':
            raise box[0][1]
        return box[0][1]
    with Streams() as st:
        try:
            if is_hand(route):
                from doit.control import TaskControl
                from doit.runner import Runner, MThreadRunner
                from doit.dependency import Dependency, DbmDB
                from doit.reporter import ConsoleReporter
                tl = [Task(name, **vtask_attrs(name, t, reg, mains, spec['chain'])) for name, _, t in units]
                tc = TaskControl(tl)
                tc.process(mains)
                dep = Dependency(DbmDB, db)
                rep = ConsoleReporter(io.StringIO(), {})
                stream = Stream(spec['sv'], spec['force'])
                if route == 'serial':
                    runner = Runner(dep, rep, stream=stream)
                else:
                    runner = MThreadRunner(dep, rep, stream=stream, num_process=1)
                rc = guarded(lambda: runner.run_all(tc.task_dispatcher()))
            else:
                from doit.doit_cmd import DoitMain
                from doit.cmd_base import ModuleTaskLoader
                cfg = {'dep_file': db}
                if spec['cfg'] is not None:
                    cfg['verbosity'] = spec['cfg']
                ns = {'DOIT_CONFIG': cfg}
                for name, _, t in units:
                    ns['task_' + name] = (lambda d: (lambda: d))(vtask_attrs(name, t, reg, mains, spec['chain']))
                args = ['run', '-o', os.path.join(tmp, '%s.report' % tag)]
                if spec['cli'] is not None:
                    args += ['-v', str(spec['cli'])]
                if route == 'main-thread':
                    args += ['-n', '1', '-P', 'thread']
                rc = guarded(lambda: DoitMain(ModuleTaskLoader(ns)).run(args + mains))
            obs = rc if rc in (0, 1, 2) else 98
        except BaseException as e:  # noqa
            obs, escaped = classify_exc(e), type(e)
            if obs == 98:
                crash = repr(e)
        cells = (sys.stdout, sys.stderr)
    got = []
    for ch in (0, 1):
        v_ = [0 if cells[ch] is (st.out, st.err)[ch] else 999]
        for _, _, t in units:
            for which, lst in (('actions', t['acts']), ('teardown', t['teardown'])):
                for p, a in enumerate(lst):
                    tk = reg.get(a['id'])
                    v_ += [-1] if tk is None else attr_z((getattr(tk, which)[p].out, getattr(tk, which)[p].err)[ch])
        v_ += [-3] + dec_loose((st.out, st.err)[ch].getvalue())
        got.append(v_)
    verbs = []
    for _, _, t in units:
        tk = reg.get(t['acts'][0]['id'])
        if tk is None:
            verbs.append(-9)
            continue
        vb = tk.verbosity
        verbs.append(-1 if vb is None else vb if isinstance(vb, int) and not isinstance(vb, bool) and 0 <= vb <= 9 else 99)
    return dict(ids=ids, got=got, want=want, obs=obs, want_obs=want_o, escaped=escaped, want_cls=want_cls, crash=crash,
                verbs=verbs, want_verbs=want_verbs, raw=(st.out.getvalue()[:300], st.err.getvalue()[:300]))


def describe_global(spec):
    if is_hand(spec['route']):
        return 'Stream(%r, force_global=%r)' % (spec['sv'], spec['force'])
    return '-v %s on the command line, verbosity %s in DOIT_CONFIG' % (
        'not given' if spec['cli'] is None else spec['cli'], 'not given' if spec['cfg'] is None else spec['cfg'])


def vrun_violations(spec, r):
    vs = []
    where = 'a run (%s; %s) of tasks with a verbosity of their own / setup tasks' % (spec['route'], describe_global(spec))
    units = vunits(spec)
    detail = ''
    if r['verbs'] is not None and r['verbs'] != r['want_verbs']:
        bad = [(units[i], g, w) for i, (g, w) in enumerate(zip(r['verbs'], r['want_verbs'])) if g != w]
        (name, twice, t), g, w = bad[0]
        detail = "task %s (own verbosity %r, %s) was executed with task.verbosity = %s, its effective verbosity is %s" % (
            name, t['verb'], 'has setup tasks: selected twice' if twice else 'no setup tasks',
            {-1: 'None', -9: '<not executed>'}.get(g, g), {-9: '<must not be executed>'}.get(w, w))
        vs.append(dict(what='%s: %s' % (where, detail), shape='verbosity-vrun' + ('-setup' if twice else ''),
                       case=dict(spec=spec, observed=r['verbs'], demanded=r['want_verbs'])))
    for ch, name in ((0, 'sys.stdout'), (1, 'sys.stderr')):
        if r['got'][ch] != r['want'][ch]:
            msg, kind = explain(r['got'][ch], r['want'][ch], where)
            if kind == 'capture':
                g, w = r['got'][ch], r['want'][ch]
                gl, wl = g[g.index(-3) + 1:], w[w.index(-3) + 1:]
                if gl != wl and g[:g.index(-3)] == w[:w.index(-3)]:
                    kind = 'live'
                    msg = ('%s: ' + ('' if spec['route'] in CLI_ROUTES else 'everything is captured but ') +
                           'what is shown live does not follow the effective verbosity after ' + where)
            vs.append(dict(what=(msg % name) + ('; ' + detail if detail else ''), shape='%s-vrun' % kind,
                           case=dict(spec=spec, channel=name, observed=r['got'][ch], demanded=r['want'][ch])))
    if r['obs'] != r['want_obs'] or (r['want_cls'] is not None and r['escaped'] is not r['want_cls']):
        vs.append(dict(what='%s: outcome %s (escaping %s), documented %s (escaping %s)' % (where, r['obs'], r['escaped'], r['want_obs'], r['want_cls']),
                       shape='outcome-vrun', case=dict(spec=spec)))
    if r['crash']:
        vs.append(dict(what='%s ended with an unexpected exception / exit status: %s' % (where, r['crash']), shape='vrun-crash', case=dict(spec=spec)))
    return vs


def part_verbosity(ctx, out):
    from doit.task import Task, Stream
    rng = ctx.rng
    tmp = ctx.subdir('vruns')
    eff = eff_table(ctx)
    cases = []
    # G1. Stream / Task.overwrite_verbosity themselves, exhaustively
    zs, model = [], []
    for sv, f in HAND_CFG:
        try:
            st = Stream(sv, f)
            zs += [st.verbosity, int(st.force_global)]
        except Exception:  # noqa
            zs += [98, 98]
        model.append('(let s := mk_stream %s %s in [vs_verbosity s; zb (vs_force s)])' % (oz(sv), 'true' if f else 'false'))
        for tv in SV:
            try:
                t = Task('t', None, verbosity=tv)
                t.overwrite_verbosity(Stream(sv, f))
                first = t.verbosity
                t.overwrite_verbosity(Stream(sv, f))
                e = [Stream(sv, f).effective_verbosity(tv), first, t.verbosity]
                e = [(-1 if x is None else x) for x in e]
            except Exception:  # noqa
                e = [98, 98, 98]
            zs += e
            model.append('(let s := mk_stream %s %s in [effective_verbosity s %s; verb_arg (select_visit s true %s); '
                         'verb_arg (select_visit s true (select_visit s true %s))])' % (oz(sv), 'true' if f else 'false', oz(tv), oz(tv), oz(tv)))
            out.count('verbosity:stream')
            out.nontrivial.add(('eff', sv, f, tv))
            want = documented_eff(('hand', sv, f, tv))
            if e != [want] * 3:
                out.violations.append(dict(what='Stream(%r, %r).effective_verbosity(%r) / Task.overwrite_verbosity (once, twice) give %s, documented priority gives %s' % (
                    sv, f, tv, e, want), shape='effective-verbosity', case=dict(stream=[sv, f], task=tv)))
    cases.append(dict(model=' ++ '.join(model), expected=zs, desc=('stream', len(zs))))
    for k, v in eff.items():
        if v != documented_eff(k):
            out.mismatches.append(dict(case='effective verbosity %r' % (k,), impl=documented_eff(k), model=[v]))
    # G2. runs
    n = ctx.n(256, 1600)
    for ci in range(n):
        route = VROUTES[ci % 4]
        spec = gen_vrun(rng, route, ci // 4, 0.15)
        cases += vrun_one(spec, tmp, 'v%d' % ci, eff, out)
    for ci in range(ctx.n(24, 128)):
        route = CLI_ROUTES[ci % 2]
        spec = gen_vrun(rng, route, (ci // 2) * 5, 0.0)      # 5 is coprime to 64: every (-v, DOIT_CONFIG, own value) within 64 steps
        cases += vrun_one(spec, tmp, 'c%d' % ci, eff, out)
    if cases:
        out.samples.append({'verbosity_run': cases[-1]['desc'][1], 'observed': cases[-1]['expected']})
    return cases


def vrun_one(spec, tmp, tag, eff, out):
    r = vrun_case(spec, tmp, tag, eff)
    route = spec['route']
    st, ts = stream_term(spec), coq_vtasks(spec)
    if route in CLI_ROUTES:
        model = ('let us := units_of %s in let ops := vrun_ops %s us [] in -3 :: s_orig (srun false false ops) ++ -3 :: s_orig (srun false true ops) '
                 '++ [aout_z (vrun_outcome us)]') % (ts, st)
        expected = r['got'][0] + r['got'][1] + [r['obs']]
    else:
        model = ('let us := units_of %s in obs2 %s [] [] (vrun_ops %s us []) ++ [aout_z (vrun_outcome us)] ++ -6 :: vrun_verbs %s us') % (
            ts, common.coq_list(r['ids'], '%nat'), st, st)
        expected = r['got'][0] + r['got'][1] + [r['obs'], -6] + r['verbs']
    units = vunits(spec)
    for name, twice, t in units:
        out.count('verbosity:%s:task=%s:%s' % ('runner' if is_hand(route) else 'cmd', t['verb'], 'setup' if twice else 'plain'))
    out.count('vrun:%s:%s' % (route, 'escaping' if r['want_obs'] == 3 else 'returns'))
    out.nontrivial.add(('vrun', route, stream_term(spec), tuple((t['verb'], twice, t['cap'], tuple(a['end'] for a in t['acts'])) for _, twice, t in units),
                        tuple(r['want'][0]), tuple(r['want'][1])))
    out.violations += vrun_violations(spec, r)
    return [dict(model=model, expected=expected, desc=('vrun', spec))]


# ------------------------------------------------------------------ H. runs that end with a user error
# `doit run` that ends with a user error BEFORE any task is executed (a name on the command line that is no task /
# target / sub-task, with and without --single; a task_dep / setup naming a task that does not exist; two tasks with one
# target; two tasks with one name; an unknown task field; an unknown reporter on the command line / in DOIT_CONFIG; a bad
# value of -n / -v / -P; an unknown option; an output file that cannot be opened), or inside run_all (a dependency
# cycle, a delayed task creator that produces a second task for a target), and a run without error as control --
# crossed with every reporter (console, executed-only, json, zero, error-only, a user's sub-class of JsonReporter
# given in DOIT_CONFIG; chosen by -r / --reporter or in DOIT_CONFIG; with and without -o file) and runner option.
# In-process through DoitMain.run: sys.stdout / sys.stderr must be the very objects they were before the run (the
# JSON reporter replaces them in __init__ and only complete_run puts them back), the error text must be on the ORIGINAL
# stderr, nothing on the original stdout, no task executed, and what the embedding program writes to sys.stdout /
# sys.stderr AFTER the run must arrive (chunks 1 / 2: compared with Model/Action.v `run_ops v [] [] ++ [Write ..]`).
# Through the real command line: exit status, the error text on stderr, nothing on stdout, no task executed.
# kind -> (text that must reach stderr, exit status, the run gets as far as Runner.run_all)
UE_KINDS = {
    'unknown-task': ('"nosuch"', 3, False),
    'unknown-target': ('sub/nosuch.txt', 3, False),
    'unknown-subtask': ('g:nosuch', 3, False),
    'single-unknown': ('"nosuch"', 3, False),
    'dangling-task-dep': ("'ghost'", 3, False),
    'dangling-setup': ("'ghost'", 3, False),
    'duplicate-target': ('common target', 3, False),
    'duplicate-task-name': ('must be unique', 3, False),
    'invalid-task-field': ('nosuchfield', 3, False),
    'unknown-reporter': ('nosuchrep', 3, False),
    'unknown-reporter-config': ('nosuchrep', 3, False),
    'bad-n': ('num_process', 3, False),
    'bad-verbosity': ('verbosity', 3, False),
    'unknown-option': ('nosuchopt', 3, False),
    'outfile-unwritable': ('nonexistent', 3, False),
    'bad-par-type': ('bogus', 3, False),
    'bad-par-type-config': ('bogus', 3, False),
    'cycle-selected': ('Cyclic', 3, True),
    'cycle-all': ('Cyclic', 3, True),
    'delayed-duplicate-target': (None, 2, True),
    'no-error': (None, 0, True),
}
UE_REPORTERS = ('console', 'executed-only', 'json', 'zero', 'error-only', 'json-class')
UE_RUNNERS = ((), ('-n', '1', '-P', 'thread'), ('-n', '2', '-P', 'thread'), ('-n', '1', '-P', 'process'), ('-n', '2', '-P', 'process'))
# `doit run -r json -n 2 -P bogus`: cmd_run.py built the reporter before it rejected the parallel type -- the streams stayed
# replaced and the message was swallowed; found by this part, repaired by /repo 251526a (the runner class is selected first).
# The input stays in the generated cases, with a shape of its own (KNOWN_FINDINGS.json lists it as fixed)
UE_DEFECT_SHAPE = 'user-error-json-invalid-par-type'
UE_AFTER = (1, 2)     # chunks the embedding program writes to sys.stdout / sys.stderr after the run

UE_DODO = r"""
import os, sys
from doit.loader import create_after
from doit.reporter import JsonReporter
D = %(d)r
class MyJson(JsonReporter):
    desc = 'a reporter class of the user'
def mk(name):
    def f():
        open(os.path.join(D, 'ran-' + name.replace(':', '.')), 'w').close()
    return f
def task_a():
    return dict(actions=[mk('a')], targets=[os.path.join(D, 'ta')])
def task_b():
    return dict(actions=[mk('b')], task_dep=['a'])
def task_g():
    yield dict(name='1', actions=[mk('g:1')])
"""
UE_EXTRA = {
    'dangling-task-dep': "def task_c():\n    return dict(actions=[mk('c')], task_dep=['ghost'])\n",
    'dangling-setup': "def task_c():\n    return dict(actions=[mk('c')], setup=['ghost'])\n",
    'duplicate-target': "def task_c():\n    return dict(actions=[mk('c')], targets=[os.path.join(D, 'ta')])\n",
    'duplicate-task-name': "def task_x():\n    return dict(basename='a', actions=[mk('x')])\n",
    'invalid-task-field': "def task_c():\n    return dict(actions=[mk('c')], nosuchfield=1)\n",
    'cycle': ("def task_c():\n    return dict(actions=[mk('c')], task_dep=['d'])\n"
              "def task_d():\n    return dict(actions=[mk('d')], task_dep=['c'])\n"),
    'delayed-duplicate-target': ("@create_after(executed='a')\ndef task_late():\n"
                                 "    yield dict(name='1', actions=[mk('late:1')], targets=[os.path.join(D, 'ta')])\n"),
}
UE_ARGS = {
    'unknown-task': ['nosuch'], 'unknown-target': ['sub/nosuch.txt'], 'unknown-subtask': ['g:nosuch'],
    'single-unknown': ['--single', 'nosuch'], 'unknown-reporter': ['-r', 'nosuchrep'], 'bad-n': ['-n', 'many'],
    'bad-verbosity': ['-v', 'loud'], 'unknown-option': ['--nosuchopt'], 'bad-par-type': ['-n', '2', '-P', 'bogus'],
    'cycle-selected': ['c'],
}


def ue_json_like(spec):
    return spec['reporter'] in ('json', 'json-class')


def ue_normalise(spec):
    """constraints between the dimensions of a case (see the comments); returns the spec"""
    kind = spec['kind']
    reaches = UE_KINDS[kind][2]
    if spec['reporter'] == 'json-class' or kind == 'unknown-reporter':
        spec['how'] = 'config'          # a class can only be named in DOIT_CONFIG; -r carries the unknown name
    if kind == 'unknown-reporter-config':
        spec['how'] = 'none'            # DOIT_CONFIG carries the unknown name: the reporter dimension is void
    if kind in ('bad-par-type', 'bad-par-type-config'):
        spec['runner'] = []             # the kind brings its own -n / -P
    if reaches:
        # two worker threads: python-actions may overlap (KNOWN finding thread-overlap-python-actions) -- not here
        if list(spec['runner']) == ['-n', '2', '-P', 'thread']:
            spec['runner'] = ['-n', '1', '-P', 'thread']
        if spec['route'] == 'main':
            # the default output stream of `run` is the sys.stdout of the moment doit.cmd_run was imported: keep the
            # reporter's own output in a file, and do not fork the check
            spec['outfile'] = True
            if 'process' in spec['runner']:
                spec['runner'] = []
    return spec


def ue_dodo(spec, d):
    kind = spec['kind']
    src = UE_DODO % dict(d=d) + UE_EXTRA.get('cycle' if kind.startswith('cycle') else kind, '')
    cfg = ["'dep_file': os.path.join(D, 'db')", "'backend': 'json'"]     # json: no file handle left open when the command ends early
    if kind == 'unknown-reporter-config':
        cfg.append("'reporter': 'nosuchrep'")
    elif spec['how'] == 'config':
        cfg.append("'reporter': %s" % ('MyJson' if spec['reporter'] == 'json-class' else repr(spec['reporter'])))
    if kind == 'bad-par-type-config':
        cfg += ["'num_process': 2", "'par_type': 'bogus'"]
    return src + 'DOIT_CONFIG = {%s}\n' % ', '.join(cfg)


def ue_argv(spec, d):
    kind = spec['kind']
    argv = []
    if spec['how'] in ('-r', '--reporter'):
        argv += [spec['how'], spec['reporter']]
    if kind == 'outfile-unwritable':
        argv += ['-o', os.path.join(d, 'nonexistent', 'sub', 'report')]
    elif spec['outfile']:
        argv += ['-o', os.path.join(d, 'report')]
    if spec['v'] is not None:
        argv += ['-v', str(spec['v'])]
    if spec['cont']:
        argv += ['--continue']
    return argv + list(spec['runner']) + UE_ARGS.get(kind, [])


def ue_ran(d):
    return sorted(f[4:].replace('.', ':') for f in os.listdir(d) if f.startswith('ran-'))


def uerr_case(spec, tmp, tag):
    """one run for real; observation: exit status, what reached the original stdout / stderr, the tasks executed,
    (in-process) which objects are installed afterwards and whether what is written then arrives"""
    import shutil, subprocess
    d = os.path.join(tmp, tag)
    shutil.rmtree(d, ignore_errors=True)
    os.makedirs(d)
    src, argv = ue_dodo(spec, d), ue_argv(spec, d)
    r = dict(argv=argv, crash=None, cells=None)
    with open(os.path.join(d, 'dodo.py'), 'w') as f:        # in-process too: the loader looks up source lines (inspect)
        f.write(src)
    if spec['route'] == 'cli':
        try:
            p = subprocess.run([common.PY, '-m', 'doit', 'run', '-f', os.path.join(d, 'dodo.py')] + argv, cwd=d, env=common.impl_env(),
                               stdout=subprocess.PIPE, stderr=subprocess.PIPE, text=True, timeout=120)
            r.update(rc=p.returncode, out=p.stdout, err=p.stderr)
        except Exception as e:  # noqa
            r.update(rc=98, out='', err='', crash=repr(e))
        r['ran'] = ue_ran(d)
        return r
    from doit.doit_cmd import DoitMain
    from doit.cmd_base import ModuleTaskLoader

    def call():
        ns = {'__name__': 'dodo'}
        exec(compile(src, os.path.join(d, 'dodo.py'), 'exec'), ns)
        return DoitMain(ModuleTaskLoader(ns)).run(['run'] + argv)

    def guarded(fn):
        if not spec['runner']:
            return fn()
        box = []

        def target():
            try:
                box.append(('rc', fn()))
            except BaseException as e:  # noqa
                box.append(('exc', e))
        th = threading.Thread(target=target, daemon=True)
        th.start()
        th.join(60)
        if not box:
            raise RuntimeError('the run did not end within 60 s')
        if box[0][0] == 'exc':
            raise box[0][1]
        return box[0][1]
    with Streams() as st:
        try:
            rc = guarded(call)
            r['rc'] = rc if isinstance(rc, int) and not isinstance(rc, bool) else 98
        except BaseException as e:  # noqa
            r['rc'], r['crash'] = 98, repr(e)
        cells = (sys.stdout, sys.stderr)
        # the embedding program goes on printing
        for ch in (0, 1):
            try:
                (sys.stderr if ch else sys.stdout).write(text(UE_AFTER[ch]))
            except Exception:  # noqa
                pass
    r['cells'] = [0 if cells[ch] is (st.out, st.err)[ch] else 999 for ch in (0, 1)]
    r['cell_types'] = [type(c).__module__ + '.' + type(c).__name__ for c in cells]
    r.update(out=st.out.getvalue(), err=st.err.getvalue(), ran=ue_ran(d))
    return r


def uerr_violations(spec, r):
    kind = spec['kind']
    word, want_rc, reaches = UE_KINDS[kind]
    probs = []
    if r['cells'] is not None:
        for ch, name in ((0, 'sys.stdout'), (1, 'sys.stderr')):
            if r['cells'][ch] != 0:
                probs.append('%s is not the object it was before the run (it is a %s%s)' % (
                    name, r['cell_types'][ch], ' -- the JSON reporter installs such objects when it is built and puts the saved ones back '
                    'in complete_run only' if ue_json_like(spec) and 'StringIO' in r['cell_types'][ch] else ''))
    if r['rc'] != want_rc:
        probs.append('exit status %s, expected %s' % (r['rc'], want_rc))
    if word is not None and word not in r['err']:
        probs.append('the error message (%r) did not reach the %sstderr, which got %r' % (word, 'original ' if r['cells'] is not None else '', r['err'][-200:]))
    if not reaches and (CHUNK.sub('', r['out']) if r['cells'] is not None else r['out']) != '':
        probs.append('the %sstdout got %r' % ('original ' if r['cells'] is not None else '', r['out'][:200]))
    if r['cells'] is not None:
        for ch, name, got in ((0, 'sys.stdout', r['out']), (1, 'sys.stderr', r['err'])):
            if dec_loose(got) != [UE_AFTER[ch]]:
                probs.append('what the program wrote to %s after the run did not arrive on the original stream' % name)
    if not reaches and r['ran']:
        probs.append('tasks %s were executed' % r['ran'])
    if kind == 'no-error' and r['ran'] != ['a', 'b', 'g:1']:
        probs.append('tasks executed: %s, expected a, b, g:1' % r['ran'])
    if r['crash']:
        probs.append('unexpected exception %s' % r['crash'])
    if not probs:
        return []
    # the defect of this family that was found in the code (repaired since) keeps a shape of its own
    if kind in ('bad-par-type', 'bad-par-type-config') and ue_json_like(spec):
        shape = UE_DEFECT_SHAPE
    else:
        shape = 'user-error-run:%s' % kind
    where = '`doit run %s` (%s; reporter %s%s) -- a run that %s' % (
        ' '.join(a if not a.startswith('/') else '<tmp>/' + os.path.basename(a) for a in r['argv']),
        'in-process, DoitMain.run' if spec['route'] == 'main' else 'real command line',
        spec['reporter'], ' from DOIT_CONFIG' if spec['how'] == 'config' else '',
        'ends with a user error (%s) %s' % (kind, 'inside run_all' if reaches else 'before any task is executed') if want_rc else 'has no error')
    return [dict(what='%s: %s' % (where, '; '.join(probs)), shape=shape, case=dict(uerr=spec, observed=dict(rc=r['rc'], stdout=r['out'][:200], stderr=r['err'][-300:], ran=r['ran'], cells=r['cells'])))]


def uerr_model(spec, r):
    """the run as Model/Action.v sees it: the tasks executed (none for the errors before run_all) write nothing,
    then the embedding program writes one chunk to each stream"""
    ts = '[' + '; '.join('{| t_capture := true; t_acts := [{| as_id := %d; as_ws := []; as_tag := RNone |}]; t_teardown := [] |}' % i
                        for i in range(len(r['ran']))) + ']'
    model = 'obs2 [] [] [] (run_ops %d %s [] ++ [Write false %d; Write true %d])' % (1 if spec['v'] is None else spec['v'], ts, UE_AFTER[0], UE_AFTER[1])
    expected = [r['cells'][0], -3] + dec_loose(r['out']) + [r['cells'][1], -3] + dec_loose(r['err'])
    return dict(model=model, expected=expected, desc=('user-error-run', spec))


def gen_uerr_specs(ctx):
    rng = ctx.rng
    specs = []

    def mk(kind, rep, runner, route, outfile=None, how=None):
        return ue_normalise(dict(kind=kind, reporter=rep, runner=list(runner), route=route,
                                 outfile=rng.random() < 0.5 if outfile is None else outfile,
                                 how=rng.choice(['-r', '--reporter', 'config']) if how is None else how,
                                 v=rng.choice([None, 0, 1, 2]), cont=rng.random() < 0.3))
    for kind in UE_KINDS:
        for rep in UE_REPORTERS:
            for runner in UE_RUNNERS:
                if ctx.quick:
                    specs.append(mk(kind, rep, runner, 'main'))
                else:
                    specs += [mk(kind, rep, runner, 'main', outfile=o, how=h) for o in (False, True) for h in ('-r', 'config')]
    for kind in UE_KINDS:
        if ctx.quick:
            specs.append(mk(kind, 'json', rng.choice(UE_RUNNERS), 'cli'))
            specs.append(mk(kind, rng.choice([x for x in UE_REPORTERS if x != 'json']), rng.choice(UE_RUNNERS), 'cli'))
        else:
            specs += [mk(kind, rep, runner, 'cli') for rep in UE_REPORTERS for runner in UE_RUNNERS]
    # the constraints make some cases equal
    seen, res = set(), []
    for s_ in specs:
        key = tuple(sorted((k, tuple(v) if isinstance(v, list) else v) for k, v in s_.items()))
        if key not in seen:
            seen.add(key)
            res.append(s_)
    return res


def part_user_errors(ctx, out):
    from concurrent.futures import ThreadPoolExecutor
    tmp = ctx.subdir('uerr')
    specs = gen_uerr_specs(ctx)
    results = {}
    cli = [(n, s_) for n, s_ in enumerate(specs) if s_['route'] == 'cli']
    with ThreadPoolExecutor(max_workers=max(1, min(4, common.NCPU))) as ex:      # sub-processes only
        futs = [(n, ex.submit(uerr_case, s_, tmp, 'u%d' % n)) for n, s_ in cli]
        for n, s_ in enumerate(specs):
            if s_['route'] == 'main':
                results[n] = uerr_case(s_, tmp, 'u%d' % n)
        for n, f in futs:
            results[n] = f.result()
    cases, n_cli = [], 0
    for n, s_ in enumerate(specs):
        r = results[n]
        vs = uerr_violations(s_, r)
        if s_['route'] == 'main':
            cases.append(uerr_model(s_, r))
        else:
            n_cli += 1
        out.count('user-error:%s:%s' % (s_['route'], s_['kind']))
        out.count('user-error:reporter:%s' % s_['reporter'])
        out.nontrivial.add(('uerr', s_['kind'], s_['reporter'], s_['how'], s_['outfile'], tuple(s_['runner']), s_['route']))
        out.violations += vs
    out.extra['user_error_cli_runs_exercised_only'] = n_cli
    if cases:
        out.samples.append({'user_error_run': cases[2]['desc'][1], 'observed(stdout ++ stderr)': cases[2]['expected']})
    return cases


def run(ctx):
    out = Outcome()
    out.rule = ('python-action representatives per way of ending (exhaustive over tags; SystemExit/KeyboardInterrupt/GeneratorExit/user BaseException included); '
                'exit statuses 0..255 + signals + command callables; random action lists for Task.execute; random forests of nested/sequential action '
                'executions (capture on/off, live streams none/current/other object, direct or through Task.execute, every way of ending, escaping '
                'exceptions caught or propagated by the enclosing callable) and ALL interleavings of k threads for stream restoration; random tasks '
                '(write sequences x verbosity x capture x way of ending) for capture; random runs of task chains with teardowns through Runner, '
                'MThreadRunner(1), DoitMain.run (serial / -n 1 -P thread); Stream/overwrite_verbosity exhaustively and runs of tasks with own verbosity '
                'None/0/1/2, with/without setup tasks, under every global setting (Stream(v, forced) for the runners built by hand; -v x DOIT_CONFIG for '
                'DoitMain.run and the real command line incl. -n 1 -P process), swept systematically for a task WITH setup tasks; runs that end with a user error '
                'before any task is executed / inside run_all (%d kinds) x reporter (console, executed-only, json, zero, error-only, user sub-class of '
                'JsonReporter; -r / DOIT_CONFIG; with / without -o) x runner option, in-process (identity of sys.stdout / sys.stderr, error text on the '
                'original stderr, later writes arrive) and through the real command line.  non-trivial = distinct case with >=2 actions/ops/writes '
                '(classification cases count per representative)') % len(UE_KINDS)
    cases = []
    for part in (part_py, part_cmd, part_task, part_restore_nested, part_restore_threads, part_capture, part_runs, part_verbosity, part_user_errors):
        real = (sys.stdout, sys.stderr)
        try:
            cases += part(ctx, out)
        finally:
            sys.stdout, sys.stderr = real
    out.evaluations = len(cases) + out.extra.get('cmd_capture_runs_exercised_only', 0) + out.extra.get('user_error_cli_runs_exercised_only', 0)
    bad = common.compare_with_model(ctx, PRE, cases)
    out.traces_validated = len(cases)
    for i, m in bad:
        out.mismatches.append(dict(case=str(cases[i]['desc']), impl=cases[i]['expected'], model=m))
    out.assumptions = ['byte-level behaviour of subprocess pipes / StringIO / decoding is exercised, not proved (partial)',
                       'inspect.signature binding in _prepare_kwargs is an oracle',
                       'teardown actions whose own exception escapes, and the thread runner with a BaseException other than SystemExit/KeyboardInterrupt '
                       '(its worker does not hand it over: the run never ends), are outside the model of a run',
                       'what the `run` command does to sys.stdout / sys.stderr outside action executions is not in Model/Action.v: the JSON reporter '
                       'replaces them when it is built (JsonReporter.__init__) and puts them back in complete_run -- modelled in Model/Report.v (C19: '
                       'w_swapped, init, unswap), here exercised by the runs that end with a user error (part H); a run that executes nothing is the '
                       'empty event sequence (C17_restore_empty_run), later writes reach the original streams (C17_after_run_writes)']
    out.extra['trusted_base'] = ['mapping of concrete Python return values / exceptions to the tags of Model/Action.v (harness/c17.py py_representatives, END_TAG)',
                                 'the sequence of Enter/Write/Exit events a generated case stands for (harness/c17.py Sim)',
                                 'the order in which a run executes the setup tasks of a task (Model/Action.v units_of) and the way the `run` command builds its '
                                 'Stream (cmd_stream) are validated by the generated runs only (DOIT_CONFIG and -v; INI files / environment are not exercised)',
                                 'that a `doit run` ending with a user error before Runner.run_all starts no action execution and leaves the streams alone '
                                 '(the empty event sequence of C17_restore_empty_run) is validated by the generated user-error runs only (harness/c17.py part H); '
                                 'reporter construction / complete_run (the JSON reporter swaps sys.stdout / sys.stderr) is modelled in Model/Report.v, not in Model/Action.v']
    return out


def replay(ctx, payload):
    """re-run the input of a recorded violation; exit 1 if it is still violated"""
    common.use_repo()
    case, shape = payload.get('case', {}), payload.get('shape', '')
    print(payload.get('what'))
    vs = None
    if 'uerr' in case:
        spec = case['uerr']
        r = uerr_case(spec, ctx.subdir('replay'), 'replay')
        print('   argv: doit run %s' % ' '.join(r['argv']))
        print('   exit status %s; original stdout %r; original stderr %r; tasks executed %s%s' % (
            r['rc'], r['out'][:200], r['err'][-300:], r['ran'],
            '' if r['cells'] is None else '; sys.stdout / sys.stderr afterwards: %s (0 = the object installed before the run)' % r['cells']))
        vs = uerr_violations(spec, r)
    elif 'forest' in case:
        vs = forest_violations(case['forest'], forest_case(case['forest']))
    elif 'spec' in case and isinstance(case['spec'], dict) and 'vtasks' in case['spec']:
        spec = case['spec']
        vs = vrun_violations(spec, vrun_case(spec, ctx.subdir('replay'), 'replay', eff_table(ctx, strict=False)))
    elif 'stream' in case and 'task' in case:
        from doit.task import Task, Stream
        (sv, f), tv = case['stream'], case['task']
        t = Task('t', None, verbosity=tv)
        t.overwrite_verbosity(Stream(sv, f))
        got, want = [Stream(sv, f).effective_verbosity(tv), t.verbosity], documented_eff(('hand', sv, f, tv))
        vs = [] if got == [want, want] else [dict(shape='effective-verbosity', what='effective verbosity / overwritten attribute %s, documented %s' % (got, want), case={})]
    elif 'spec' in case and isinstance(case['spec'], dict) and 'tasks' in case['spec']:
        spec = case['spec']
        vs = task_violations(spec, run_case(spec, ctx.subdir('replay'), 'replay'), where='a run (%s)' % spec['route'], shape='run')
    elif 'spec' in case and isinstance(case['spec'], dict) and 'acts' in case['spec']:
        vs = task_violations(case['spec'], task_case(case['spec']))
    elif 'representative' in case:
        from doit.action import PythonAction
        tag, fn = py_representatives()[case['representative']]
        act = PythonAction(fn)
        with Streams() as st:
            try:
                o = classify_ret(act.execute())
            except BaseException as e:  # noqa
                o = classify_exc(e)
        want = {'RTrue': 0, 'RNone': 0, 'RStr': 0, 'RDict': 0, 'RFalse': 1, 'RTaskFailed': 1, 'RBaseExc': 3}.get(tag, 2)
        wrote = tag in ('RRaises', 'RBaseExc')
        vs = []
        if o != want:
            vs.append(dict(shape='py-classify:' + tag, what='outcome %s, documented %s' % (o, want), case={}))
        if not st.restored():
            vs.append(dict(shape='py-restore:' + tag, what='sys.stdout/sys.stderr are not the original objects after the action', case={}))
        if wrote and (act.out, act.err) != (text(1), text(2)):
            vs.append(dict(shape='py-capture:' + tag, what='self.out/self.err are %r, written %r' % ((act.out, act.err), (text(1), text(2))), case={}))
    if vs is None:
        print(payload)
        return 0
    for v in vs:
        print('STILL VIOLATED [%s]: %s' % (v['shape'], v['what']))
        for k in ('channel', 'observed', 'demanded'):
            if k in v['case']:
                print('   %s: %s' % (k, v['case'][k]))
    if not vs:
        print('not violated by %s' % common.REPO)
    return 1 if vs else 0
