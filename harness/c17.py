"""C17 -- action outcome classification, Task.execute, capture, restoration of sys.stdout/stderr.

Correspondence: the real PythonAction / CmdAction / Task.execute are run on generated inputs and
their observable outcome is compared with Model/Action.v evaluated inside Coq.
"""
import io, itertools, os, signal, sys, threading
import common
from common import Outcome

PRE = 'From DoitV Require Import Base Action.\nOpen Scope Z_scope.\n'
AOUT = {'ok': 0, 'failed': 1, 'error': 2}


def classify_ret(ret):
    from doit.exceptions import TaskFailed, TaskError
    if ret is None:
        return 0
    if isinstance(ret, TaskFailed):
        return 1
    if isinstance(ret, TaskError):
        return 2
    return 99


class Streams:
    """install recording stdout/stderr for the duration of a block; always restore the real ones"""
    def __enter__(self):
        self.real = (sys.stdout, sys.stderr)
        self.out, self.err = io.StringIO(), io.StringIO()
        sys.stdout, sys.stderr = self.out, self.err
        return self

    def __exit__(self, *a):
        self.after = (sys.stdout, sys.stderr)
        sys.stdout, sys.stderr = self.real

    def restored(self):
        return self.after[0] is self.out and self.after[1] is self.err


# ------------------------------------------------------------------ A. python-action classification
def py_representatives():
    from doit.exceptions import TaskFailed, TaskError

    class StrSub(str):
        pass

    class DictSub(dict):
        pass

    class TFSub(TaskFailed):
        pass

    class Falsy:
        def __bool__(self):
            return False

    def raiser(exc):
        def f():
            raise exc
        return f
    reps = [
        ('RTrue', lambda: True), ('RFalse', lambda: False), ('RNone', lambda: None),
        ('RStr', lambda: 'abc'), ('RStr', lambda: ''), ('RStr', lambda: StrSub('x')),
        ('RDict', lambda: {'a': 1}), ('RDict', lambda: {}), ('RDict', lambda: DictSub(k=2)),
        ('RTaskFailed', lambda: TaskFailed('no')), ('RTaskFailed', lambda: TFSub('no')),
        ('RTaskError', lambda: TaskError('bad')),
        ('ROther', lambda: 0), ('ROther', lambda: 1), ('ROther', lambda: 2), ('ROther', lambda: []),
        ('ROther', lambda: [1]), ('ROther', lambda: ()), ('ROther', lambda: (1, 2)), ('ROther', lambda: 1.5),
        ('ROther', lambda: b'bytes'), ('ROther', lambda: object()), ('ROther', lambda: Falsy()),
        ('ROther', lambda: {1, 2}), ('ROther', lambda: Exception('returned, not raised')),
        ('ROther', lambda: NotImplemented), ('ROther', lambda: 0.0),
        ('RRaises', raiser(ValueError('v'))), ('RRaises', raiser(KeyError('k'))),
        ('RRaises', raiser(TaskFailed('raised'))), ('RRaises', raiser(TaskError('raised'))),
        ('RRaises', raiser(OSError(2, 'x'))), ('RRaises', raiser(StopIteration())),
        ('RRaises', raiser(AssertionError())), ('RRaises', raiser(ZeroDivisionError())),
    ]
    return reps


def part_py(ctx, out):
    from doit.action import PythonAction
    reps = py_representatives()
    cases = []
    for tag, fn in reps:
        with Streams() as st:
            act = PythonAction(fn)
            try:
                ret = act.execute()
                obs = classify_ret(ret)
            except BaseException as e:  # noqa
                obs = 98
        sets_result = int(act.result is not None)
        sets_values = int(act.result is not None and act.values is act.result)
        cases.append(dict(
            model='[aout_z (py_classify %s); zb (py_sets_result %s); zb (py_sets_values %s); 0]' % (tag, tag, tag),
            expected=[obs, sets_result, sets_values, 0 if st.restored() else 1],
            desc=('py', tag)))
        out.count('py:' + tag)
        out.nontrivial.add(('py', tag, len(cases)))
        # property oracle, independent of the model: the documented classification
        want = {'RTrue': 0, 'RNone': 0, 'RStr': 0, 'RDict': 0, 'RFalse': 1, 'RTaskFailed': 1}.get(tag, 2)
        if obs != want:
            out.violations.append(dict(what='python-action returning %s classified %s, documented %s' % (tag, obs, want),
                                       shape='py-classify:%s' % tag, case=dict(tag=tag)))
        if not st.restored():
            out.violations.append(dict(what='sys.stdout/stderr not restored after python-action (%s)' % tag,
                                       shape='py-restore:%s' % tag, case=dict(tag=tag)))
    return cases


# ------------------------------------------------------------------ B. cmd-action classification
def part_cmd(ctx, out):
    from doit.action import CmdAction
    statuses = list(range(256)) if not ctx.quick else sorted(set(list(range(0, 8)) + list(range(120, 132)) + [64, 200, 254, 255] + ctx.rng.sample(range(256), 40)))
    sigs = [signal.SIGHUP, signal.SIGINT, signal.SIGKILL, signal.SIGTERM, signal.SIGUSR1, signal.SIGSEGV, signal.SIGABRT]
    zs, obs = [], []
    for s in statuses:
        act = CmdAction('exit %d' % s)
        with Streams():
            ret = act.execute()
        zs.append(s); obs.append(classify_ret(ret))
        out.count('cmd:status')
    for s in statuses[:: (4 if ctx.quick else 1)]:
        act = CmdAction([sys.executable, '-S', '-c', 'import os; os._exit(%d)' % s], shell=False)
        with Streams():
            ret = act.execute()
        zs.append(s); obs.append(classify_ret(ret))
        out.count('cmd:status-list-form')
    for sg in sigs:
        act = CmdAction([sys.executable, '-S', '-c', 'import os; os.kill(os.getpid(), %d)' % int(sg)], shell=False)
        with Streams():
            ret = act.execute()
        zs.append(-int(sg)); obs.append(classify_ret(ret))
        out.count('cmd:signal')
    for z, o in zip(zs, obs):
        want = 0 if z == 0 else (1 if z <= 125 else 2)
        out.nontrivial.add(('cmd', z))
        if o != want:
            out.violations.append(dict(what='cmd-action with exit status %d classified %d, documented %d' % (z, o, want),
                                       shape='cmd-classify:%d' % z, case=dict(status=z)))
    return [dict(model='map (fun z => aout_z (cmd_classify z)) %s' % common.zlist(zs), expected=obs, desc=('cmd', len(zs)))]


# ------------------------------------------------------------------ C. Task.execute
def part_task(ctx, out):
    from doit.task import Task, Stream
    from doit.exceptions import TaskFailed, TaskError
    rng = ctx.rng
    cases = []
    n = ctx.n(150, 1500)
    kinds = ['RTrue', 'RNone', 'RStr', 'RDict', 'RFalse', 'RTaskFailed', 'RTaskError', 'ROther', 'RRaises', 'cmd0', 'cmd1', 'cmd126']
    for ci in range(n):
        k = rng.choice([0, 1, 2, 3, 4, 5, 6])
        weights = [3, 3, 4, 6, 1, 1, 1, 1, 1, 2, 1, 1] if rng.random() < 0.7 else [1] * 12
        spec = rng.choices(kinds, weights=weights, k=k)
        actions, model_acts, tokens = [], [], {}
        ran = []
        for i, kd in enumerate(spec):
            tok = 100 + i
            if kd.startswith('cmd'):
                status = int(kd[3:])
                actions.append('echo c%d; exit %d' % (i, status))
                tokens['c%d\n' % i] = tok
                o = 'AOk' if status == 0 else ('AFailed' if status <= 125 else 'AError')
                model_acts.append('{| a_out := %s; a_result := Some %d; a_values := [] |}' % (o, tok))
                continue
            vals = []
            if kd == 'RDict':
                vals = [(rng.randrange(4), rng.randrange(50)) for _ in range(rng.randrange(3))]
                vals = list(dict(vals).items())
            value = {'RTrue': True, 'RNone': None, 'RStr': 's%d' % i, 'RDict': {('k%d' % a): b for a, b in vals},
                     'RFalse': False, 'RTaskFailed': TaskFailed('f'), 'RTaskError': TaskError('e'), 'ROther': 7 + i,
                     'RRaises': None}[kd]
            if kd == 'RStr':
                tokens[value] = tok

            def mk(kd=kd, value=value, i=i):
                def f():
                    ran.append(i)
                    if kd == 'RRaises':
                        raise RuntimeError('boom')
                    return value
                return f
            actions.append(mk())
            o = {'RTrue': 'AOk', 'RNone': 'AOk', 'RStr': 'AOk', 'RDict': 'AOk', 'RFalse': 'AFailed', 'RTaskFailed': 'AFailed'}.get(kd, 'AError')
            res = 'Some %d' % tok if kd in ('RStr', 'RDict') else 'None'
            model_acts.append('{| a_out := %s; a_result := %s; a_values := %s |}' % (
                o, res, '[' + '; '.join('(%d, %d)' % kv for kv in vals) + ']'))
            if kd == 'RDict':
                tokens[id(value)] = tok
        task = Task('t', actions)
        with Streams() as st:
            try:
                ret = task.execute(Stream(0))
                obs = classify_ret(ret)
            except BaseException as e:  # noqa
                obs = 98
        r = task.result
        if r is None:
            rz = -1
        elif isinstance(r, dict):
            rz = tokens.get(id(r), -2)
        else:
            rz = tokens.get(r, -2)
        vz = []
        for kk, vv in task.values.items():
            vz += [int(kk[1:]), vv]
        # number of actions started: python ones via `ran`, cmd ones via their `.out`
        started = sum(1 for i, a in enumerate(task.actions) if (i in ran) or (getattr(a, 'out', None) is not None and spec[i].startswith('cmd')))
        expected = [obs, rz, started] + vz
        model = ('let x := task_execute [%s] None [] 0 in [aout_z (x_out x); match x_result x with Some r => r | None => -1 end; znat (x_ran x)] '
                 '++ flat_map (fun kv => [fst kv; snd kv]) (x_values x)') % '; '.join(model_acts)
        cases.append(dict(model=model, expected=expected, desc=('task', spec)))
        out.count('task:len%d' % k)
        if any(o not in ('RTrue', 'RNone', 'RStr', 'RDict', 'cmd0') for o in spec[:-1]) or len(spec) >= 2:
            out.nontrivial.add(('task', tuple(spec), tuple(vz)))
        # independent oracle: stops at first unsuccessful action
        okk = ('RTrue', 'RNone', 'RStr', 'RDict', 'cmd0')
        first_bad = next((i for i, s_ in enumerate(spec) if s_ not in okk), None)
        want_started = len(spec) if first_bad is None else first_bad + 1
        if started != want_started or not st.restored():
            out.violations.append(dict(what='Task.execute ran %d actions of %s (expected %d), streams restored=%s' % (started, spec, want_started, st.restored()),
                                       shape='task-execute', case=dict(spec=spec)))
    if cases:
        out.samples.append({'task_execute_actions': cases[0]['desc'][1], 'observed': cases[0]['expected']})
    return cases


# ------------------------------------------------------------------ D. restoration of the global streams
def gen_tree(rng, depth, counter, pfail):
    """a forest of action executions: (id, kwargs_fail, children)"""
    forest = []
    for _ in range(rng.choice([0, 1, 1, 2, 3]) if depth else rng.choice([1, 2, 3])):
        i = counter[0]; counter[0] += 1
        kf = rng.random() < pfail
        kids = [] if (kf or depth >= 2) else gen_tree(rng, depth + 1, counter, pfail)
        forest.append((i, kf, kids, rng.choice(['ok', 'ok', 'raise', 'false'])))
    return forest


def forest_ops(forest):
    ops = []
    for i, kf, kids, how in forest:
        if kf:
            ops.append('Enter %d true' % i)
        else:
            ops.append('Enter %d false' % i)
            ops += forest_ops(kids)
            ops.append('Exit %d' % i)
    return ops


def run_forest(forest, mine):
    from doit.action import PythonAction
    from doit.task import Task
    from doit.exceptions import InvalidTask
    for i, kf, kids, how in forest:
        if kf:
            def bad(task=None):  # default value on a reserved name -> _prepare_kwargs raises InvalidTask
                mine[i] = sys.stdout
            t = Task('t%d' % i, [bad])
            try:
                t.actions[0].execute()
            except InvalidTask:
                pass
        else:
            def f(i=i, kids=kids, how=how):
                mine[i] = sys.stdout
                print('in', i)
                run_forest(kids, mine)
                if how == 'raise':
                    raise RuntimeError('x')
                return how != 'false'
            PythonAction(f).execute()


def part_restore_nested(ctx, out):
    cases = []
    for ci in range(ctx.n(120, 1200)):
        counter = [1]
        forest = gen_tree(ctx.rng, 0, counter, 0.15 if ci % 2 else 0.0)
        ops = forest_ops(forest)
        mine = {}
        with Streams() as st:
            try:
                run_forest(forest, mine)
            except BaseException as e:  # noqa
                mine['crash'] = repr(e)
            cur = sys.stdout
            cell = 0 if cur is st.out else next((1 + i for i, w in mine.items() if w is cur), 999)
            cur_e = sys.stderr
        cases.append(dict(model='[stream_z (s_cell (srun false [%s]))]' % '; '.join(ops), expected=[cell], desc=('nested', ops)))
        out.count('restore:nested' + (':kwargs_fail' if any('true' in o for o in ops) else ''))
        if len(ops) >= 3:
            out.nontrivial.add(('nested', tuple(ops)))
        if cell != 0 or cur_e is not st.err:
            kf = any('true' in o for o in ops)
            out.violations.append(dict(what='sys.stdout/stderr not the original object after a properly nested sequence of python-actions%s' % (' (one failing in _prepare_kwargs)' if kf else ''),
                                       shape='restore-nested' + ('-kwargs-fail' if kf else ''), case=dict(ops=ops)))
    if cases:
        out.samples.append({'nested_action_executions': cases[-1]['desc'][1], 'final_stream': cases[-1]['expected']})
    return cases


def interleavings(k):
    """all sequences over Enter i / Exit i (each once, Enter before Exit) for i < k"""
    res = []
    def go(seq, entered, exited):
        if len(exited) == k:
            res.append(list(seq)); return
        for i in range(k):
            if i not in entered:
                go(seq + [('E', i)], entered | {i}, exited)
            elif i not in exited:
                go(seq + [('X', i)], entered, exited | {i})
    go([], frozenset(), frozenset())
    return res


def is_nested(seq):
    stack = []
    for op, i in seq:
        if op == 'E':
            stack.append(i)
        else:
            if not stack or stack[-1] != i:
                return False
            stack.pop()
    return True


def run_interleaving(seq, k):
    """k threads, each executing one PythonAction; the callable blocks so that swaps/restores
    happen in exactly the order `seq`"""
    from doit.action import PythonAction
    go_in = [threading.Event() for _ in range(k)]
    inside = [threading.Event() for _ in range(k)]
    go_out = [threading.Event() for _ in range(k)]
    done = [threading.Event() for _ in range(k)]
    mine = {}

    def body(i):
        go_in[i].wait(10)
        def f():
            mine[i] = sys.stdout
            inside[i].set()
            go_out[i].wait(10)
        PythonAction(f).execute()
        done[i].set()
    ths = [threading.Thread(target=body, args=(i,), daemon=True) for i in range(k)]
    with Streams() as st:
        for t in ths:
            t.start()
        for op, i in seq:
            if op == 'E':
                go_in[i].set(); inside[i].wait(10)
            else:
                go_out[i].set(); done[i].wait(10)
        for t in ths:
            t.join(10)
        cur = sys.stdout
        cell = 0 if cur is st.out else next((1 + i for i, w in mine.items() if w is cur), 999)
    return cell


def part_restore_threads(ctx, out):
    cases = []
    for k in ([2] if ctx.quick else [2, 3]):
        for seq in interleavings(k):
            cell = run_interleaving(seq, k)
            ops = ['Enter %d false' % i if op == 'E' else 'Exit %d' % i for op, i in seq]
            cases.append(dict(model='[stream_z (s_cell (srun false [%s]))]' % '; '.join(ops), expected=[cell], desc=('threads', ops)))
            out.count('restore:threads:%s' % ('nested' if is_nested(seq) else 'overlap'))
            out.nontrivial.add(('threads', tuple(ops)))
            if cell != 0:
                shape = 'restore-nested' if is_nested(seq) else 'thread-overlap-python-actions'
                out.violations.append(dict(what='sys.stdout left as a doit Writer after python-actions overlapping in different threads',
                                           shape=shape, case=dict(ops=ops)))
    out.samples.append({'thread_interleaving': cases[-1]['desc'][1], 'final_stream': cases[-1]['expected']})
    return cases


# ------------------------------------------------------------------ E. capture
def part_capture(ctx, out):
    from doit.task import Task, Stream
    rng = ctx.rng
    cases = []
    for ci in range(ctx.n(90, 600)):
        v = rng.choice([0, 1, 2])
        ws = [(rng.random() < 0.4, j) for j in range(rng.randrange(0, 9))]
        text = {j: ('chunk%d-%s\n' % (j, 'x' * rng.choice([0, 1, 10, 1000, 70000 if rng.random() < 0.05 else 5]))) for _, j in ws}

        def f():
            for is_err, j in ws:
                (sys.stderr if is_err else sys.stdout).write(text[j])
            return True
        task = Task('t', [f], verbosity=v)
        with Streams() as st:
            task.execute(Stream(None))
        act = task.actions[0]

        def dec(s):
            ids, rest = [], s
            for _, j in ws:
                pass
            # decode a concatenation of chunk texts back into ids (chunks are self-delimiting)
            while rest:
                hit = next((j for j in text if rest.startswith(text[j])), None)
                if hit is None:
                    return [-7]
                ids.append(hit); rest = rest[len(text[hit]):]
            return ids
        exp = dec(act.out) + [-1] + dec(act.err) + [-1] + dec(st.out.getvalue()) + [-1] + dec(st.err.getvalue())
        wl = '[' + '; '.join('(%s, %d)' % ('true' if e else 'false', j) for e, j in ws) + ']'
        model = 'let c := py_capture %d %s in c_out c ++ [-1] ++ c_err c ++ [-1] ++ c_live_out c ++ [-1] ++ c_live_err c' % (v, wl)
        cases.append(dict(model=model, expected=exp, desc=('capture', v, ws)))
        out.count('capture:py:v%d' % v)
        if len(ws) >= 2:
            out.nontrivial.add(('cap', v, tuple(ws)))
        want_out = [j for e, j in ws if not e]; want_err = [j for e, j in ws if e]
        if dec(act.out) != want_out or dec(act.err) != want_err or not st.restored():
            out.violations.append(dict(what='python-action output not captured completely/in order (verbosity %d)' % v,
                                       shape='capture-py', case=dict(verbosity=v, writes=ws)))
    # cmd-actions: byte-level capture is library behaviour (pipes, threads, decoding): exercised only
    n_cmd = 0
    unit = {'ascii': b'ab', 'badutf8': b'\xff\xfe', 'utf8-3byte': '\u20ac'.encode('utf-8'), 'utf8-mixed': 'a\u00e9\u20ac\U0001F600'.encode('utf-8')}
    for size in ([0, 1, 4096, 8191, 8192, 8193, 24576, 65536, 300000] if ctx.quick else [0, 1, 100, 4095, 4096, 4097, 8190, 8191, 8192, 8193, 16383, 16384, 16385, 24576, 65535, 65536, 65537, 300000, 2000000]):
        for v in (0, 1, 2):
            for mode in ('ascii', 'badutf8', 'utf8-3byte', 'utf8-mixed'):
                for nl in ((False,) if ctx.quick and mode in ('ascii', 'badutf8') else (False, True)):
                    u = unit[mode]
                    reps = size // len(u)
                    # one long line (nl=False) or many lines; an offset byte shifts multi-byte characters across buffer boundaries
                    off = b'x' * (size % 3)
                    body = off + u * reps
                    if nl and reps > 10:
                        body = off + (u * 7 + b'\n') * (reps // 7)
                    payload = body + b'\n'
                    script = ('import sys; u=%r; p=%r+u*%d if not %r else %r+(u*7+b"\\n")*%d; p=p+b"\\n"; '
                              'sys.stdout.buffer.write(p); sys.stdout.flush(); sys.stderr.buffer.write(b"E"+p); sys.stderr.flush()'
                              % (u, off, reps, bool(nl and reps > 10), off, reps // 7))
                    task = Task('c', [[sys.executable, '-S', '-c', script]], verbosity=v)
                    with Streams() as st:
                        ret = task.execute(Stream(None))
                    act = task.actions[0]
                    want = payload.decode('utf-8', 'replace')
                    n_cmd += 1
                    out.count('capture:cmd:%s' % mode)
                    ok = (ret is None and act.out == want and act.err == 'E' + want and act.result == want + 'E' + want
                          and st.out.getvalue() == (want if v == 2 else '') and st.err.getvalue() == ('E' + want if v >= 1 else ''))
                    if not ok or not st.restored():
                        out.violations.append(dict(what='cmd-action output of %d bytes (%s, %s) not captured intact at verbosity %d' % (len(payload), mode, 'many lines' if nl else 'one line', v),
                                                   shape='capture-cmd', case=dict(size=size, verbosity=v, mode=mode, lines=bool(nl))))
    out.extra['cmd_capture_runs_exercised_only'] = n_cmd
    return cases


def run(ctx):
    out = Outcome()
    out.rule = ('python-action return representatives per tag (exhaustive over tags); exit statuses 0..255 + signals; random action lists for '
                'Task.execute; random forests of nested action executions and ALL interleavings of k threads for stream restoration; random '
                'write sequences x verbosity for capture.  non-trivial = distinct case with >=2 actions/ops (classification cases count per representative)')
    cases = []
    for part in (part_py, part_cmd, part_task, part_restore_nested, part_restore_threads, part_capture):
        cases += part(ctx, out)
    out.evaluations = len(cases) + out.extra.get('cmd_capture_runs_exercised_only', 0)
    bad = common.compare_with_model(ctx, PRE, cases)
    out.traces_validated = len(cases)
    for i, m in bad:
        out.mismatches.append(dict(case=str(cases[i]['desc']), impl=cases[i]['expected'], model=m))
    out.assumptions = ['byte-level behaviour of subprocess pipes / StringIO / decoding is exercised, not proved (partial)',
                       'inspect.signature binding in _prepare_kwargs is an oracle']
    out.extra['trusted_base'] = ['mapping of concrete Python return values to the tags of Model/Action.v (harness/c17.py py_representatives)']
    return out


def replay(ctx, payload):
    print(payload)
    return 0
