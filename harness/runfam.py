"""Run-family checks (C02 C05 C08 C09 C11 C19): shared correspondence run (real dispatcher + runners
vs. Model/Dispatch.v + Runner.v + Parallel.v, see runlib.py / c01.py) with one independent oracle
per property evaluated on the implementation's own event list.

Event codes: 1 get_status, 2 skip_ignore, 3 skip_uptodate, 4 failure(kind), 5 execute report, 6 success,
7 save_success, 8 remove_success, 9 teardown report, 10 DB close, 11 cycle error, 12 hold (deadlock) error,
13 interrupt, 20/21 action start/end (worker), 22 teardown action run in worker, 23 terminate, 24 hang.
"""
import common, runlib
from common import Outcome

FINAL = (2, 3, 4, 6)


class View:
    """indexes over one observed run"""
    def __init__(self, case, res):
        self.case, self.res = case, res
        self.ev = res['events']
        self.n = case['n']
        self.rows = res['rows']
        self.flavour = case['flavour']
        self.rc = res['rc']
        self.start_code = 5 if self.flavour == 'serial' else 20
        self.deps = res['real_deps']                       # task_dep + setup + calc_dep after the run
        self.setup = {i: list(r['setup']) for i, r in enumerate(self.rows)}
        self.pos = {}
        for p, e in enumerate(self.ev):
            self.pos.setdefault((e[0], e[1] if len(e) > 1 else None), []).append(p)

    def first(self, code, t):
        l = self.pos.get((code, t))
        return l[0] if l else None

    def count(self, code, t):
        return len(self.pos.get((code, t), []))

    def finals(self, t):
        return [e for e in self.ev if e[0] in FINAL and e[1] == t]

    def started(self, t):
        return self.count(self.start_code, t) > 0

    def non_setup_deps(self, t):
        # real_deps contains setup too; separate them again (setup as the dispatcher sees it)
        return list(self.res['real_nonsetup'].get(t, []))

    def closure(self, with_setup):
        seen, todo = set(), list(self.case['selected'])
        while todo:
            t = todo.pop()
            if t in seen:
                continue
            seen.add(t)
            todo += self.non_setup_deps(t)
            if with_setup:
                todo += self.setup.get(t, [])
        return seen

    def cut_short(self):
        """run legitimately ended early: a failure without --continue, an interrupt, a pre-execution error"""
        if self.rc in (3, 4, 97, 98):
            return True
        return (not self.case['cont']) and any(e[0] == 4 for e in self.ev)

    def activated(self, t):
        """did t's status check say `run` (only then its setup tasks become part of the run)?"""
        l = self.pos.get((1, t))
        if not l:
            return False
        nxt = self.ev[l[0] + 1] if l[0] + 1 < len(self.ev) else None
        return not (nxt is not None and len(nxt) > 1 and nxt[1] == t and nxt[0] in (2, 3, 4, 8))

    def eff_edges(self, full=False):
        """dependency edges that are part of the run: task_dep / implicit file deps / calc_dep (incl. the
        ones calc results added) always; setup edges of t only once t is to be executed (setup tasks are
        selected lazily, doc: 'setup-tasks are only executed if the task is to be run')"""
        # the declared edges are taken from the generated case itself (not from what TaskControl made of them):
        # task_dep, calc_dep, and file_dep on the target of another -- or the same -- task
        decl = {u: set(self.case['tasks'][u]['task_dep']) | set(self.case['tasks'][u]['calc_dep']) | set(self.case['tasks'][u]['file_edge'])
                for u in range(self.n)}
        return {u: decl[u] | set(self.non_setup_deps(u)) | (set(self.setup.get(u, [])) if (full or self.activated(u)) else set())
                for u in range(self.n)}

    def has_cycle(self, full=False):
        """is there a dependency cycle inside the closure of the selection?"""
        edges = self.eff_edges(full)
        clo, todo = set(), list(self.case['selected'])
        while todo:
            t = todo.pop()
            if t not in clo:
                clo.add(t); todo += list(edges.get(t, ()))
        color = {}
        def visit(u):
            color[u] = 1
            for v in edges.get(u, ()):
                if color.get(v) == 1:
                    return True
                if v not in color and visit(v):
                    return True
            color[u] = 2
            return False
        return any(visit(u) for u in sorted(clo) if u not in color)


def desc(view):
    c = view.case
    return dict(tasks=view.rows, selected=c['selected'], flavour=c['flavour'], k=c['k'], cont=c['cont'], always=c['always'],
                sched=c['sched'][:len(view.res['arity'])], events=view.ev, exit=view.rc)


# ------------------------------------------------------------------ oracles
def oracle_c02(v):
    bad = []
    for t in range(v.n):
        if v.count(v.start_code, t) > 1:
            bad.append(('exec-twice', 'task %d started %d times' % (t, v.count(v.start_code, t))))
        if len(v.finals(t)) > 1:
            bad.append(('two-final-reports', 'task %d got %d final reports' % (t, len(v.finals(t)))))
    allowed = v.closure(True)
    for e in v.ev:
        if e[0] in (1, 5, 20) and e[1] not in allowed:
            bad.append(('outside-closure', 'task %d processed although outside the dependency closure of the selection' % e[1]))
            break
    if not v.cut_short():
        for t in sorted(v.closure(False)):
            if len(v.finals(t)) != 1:
                bad.append(('closure-task-not-processed', 'task %d of the closure got %d final reports in a run that was not cut short' % (t, len(v.finals(t)))))
                break
    # "no task outside that closure (other than setup-tasks of tasks that execute) is executed at all":
    # the laziness judgement of oracle_c11 (a setup-task is only touched on behalf of a task that was going to run)
    for shape, what in oracle_c11(v):
        if shape == 'setup-task-not-lazy':
            bad.append(('setup-task-of-non-executing-task', what))
    return bad


def oracle_c05(v):
    bad = []
    failed = [e[1] for e in v.ev if e[0] == 4]
    for f in failed:
        pf = v.first(4, f)
        pr = v.first(8, f)
        if pr is None or pr > pf:
            bad.append(('failure-not-removed', 'task %d failed but remove_success was not called before the failure report' % f))
        if any(e[0] == 7 and e[1] == f for e in v.ev):
            bad.append(('failure-saved', 'task %d failed and was saved as successful in the same run' % f))
    # containment: nobody depending (transitively) on a failed task starts
    rdeps = {}
    for t in range(v.n):
        for d in set(v.deps.get(t, [])) | set(v.setup.get(t, [])):
            rdeps.setdefault(d, set()).add(t)
    # direct edges are enough: a dependent that is processed after the failure is itself reported failed
    # (unmet dependency), and that report is checked against ITS dependents in turn; a setup edge only
    # matters for a requirer that really wants to run (an up-to-date requirer never consults its setup-tasks)
    for f in failed:
        pf = v.first(4, f)
        for y in rdeps.get(f, ()):
            ps = v.first(v.start_code, y)
            if ps is not None and ps > pf:
                bad.append(('dependent-of-failed-executed', 'task %d started after task %d, on which it depends, had failed' % (y, f)))
    if v.flavour == 'serial' and not v.case['cont'] and failed:
        pf = min(v.first(4, f) for f in failed)
        if any(e[0] == 5 for e in v.ev[pf:]):
            bad.append(('serial-continued-after-failure', 'serial runner started a task after a failure without --continue'))
    if v.case['cont'] and v.rc in (0, 1, 2):
        bad_set = set()
        for f in failed:
            seen, todo = set(), [f]
            while todo:
                x = todo.pop()
                for y in rdeps.get(x, ()):
                    if y not in seen:
                        seen.add(y); todo.append(y)
            bad_set |= seen
        for t in sorted(v.closure(False)):
            if t not in bad_set and t not in failed and len(v.finals(t)) != 1:
                bad.append(('continue-skipped-independent-task', 'with --continue task %d (independent of the failures) was not processed' % t))
                break
    return bad


def oracle_c09(v):
    bad = []
    if v.rc == 98:
        bad.append(('hang', 'run never terminates: main thread blocked with nothing executing'))
    if v.rc == 97:
        bad.append(('internal-error', 'an internal error escaped run_all: %s' % v.case.get('_crash')))
    cyc = v.has_cycle()
    if not v.has_cycle(full=True) and v.rc == 3:
        bad.append(('false-cycle-error', 'cyclic-dependency error (exit 3) on an acyclic closure'))
    if cyc and v.rc in (0, 1, 2) and not ((not v.case['cont']) and any(e[0] == 4 for e in v.ev)):
        bad.append(('cycle-not-diagnosed', 'closure contains a dependency cycle but the run ended with exit %s' % v.rc))
    # the theorem C09_cycle_never_runs, observed on the implementation: nothing that sits on a cycle of the
    # final graph (all edge kinds) is ever started or gets a final report
    edges = v.eff_edges()
    def reaches(a, b):
        seen, todo = set(), list(edges.get(a, ()))
        while todo:
            y = todo.pop()
            if y == b:
                return True
            if y not in seen:
                seen.add(y); todo += list(edges.get(y, ()))
        return False
    for t in range(v.n):
        if reaches(t, t):
            if v.started(t) or v.count(5, t):
                bad.append(('cycle-task-executed', 'task %d is on a dependency cycle and was executed' % t))
            if [e for e in v.finals(t) if e[0] in (2, 3, 6)]:
                bad.append(('cycle-task-final', 'task %d is on a dependency cycle and was reported done/skipped' % t))
    # progress: on an acyclic closure a run that is not cut short gives every closure task a final report
    if not v.has_cycle(full=True) and not v.cut_short():
        for t in sorted(v.closure(False)):
            if not v.finals(t):
                bad.append(('no-progress', 'acyclic closure, run not cut short, exit %s, but task %d never got a final report' % (v.rc, t)))
                break
    return bad


def oracle_c11(v):
    bad = []
    # a setup-task completes (final report) before the task requiring it starts
    for t in range(v.n):
        ps = v.first(v.start_code, t)
        if ps is None:
            continue
        for sx in v.setup.get(t, []):
            fin = [p for p, e in enumerate(v.ev) if e[0] in FINAL and len(e) > 1 and e[1] == sx]
            if not fin or min(fin) > ps:
                bad.append(('setup-not-before-task', 'task %d started before its setup-task %d had finished' % (t, sx)))
    requirers = {}
    for t in range(v.n):
        for s in v.setup.get(t, []):
            requirers.setdefault(s, set()).add(t)

    firstpos = {}
    for pidx, e in enumerate(v.ev):
        if len(e) > 1 and e[0] in (1, 2, 3, 4, 5, 6, 20) and e[1] not in firstpos:
            firstpos[e[1]] = pidx

    def p_sub(x, just):
        """position at which x shows up; if x itself never got an event: the first position of anything
        below it (any edge kind) that is not justified otherwise"""
        if x in firstpos:
            return firstpos[x]
        seen, todo, best = set(), [x], None
        while todo:
            y = todo.pop()
            if y in seen:
                continue
            seen.add(y)
            if y != x and y not in just and y in firstpos and (best is None or firstpos[y] < best):
                best = firstpos[y]
            todo += v.non_setup_deps(y) + v.setup.get(y, [])
        return best

    def setup_justified(s, r, just=frozenset()):
        """r was being selected to run when s (or something below s) was first looked at:
        get_status(r) happened before, and r had no final report yet"""
        p0 = p_sub(s, just)
        pr = v.first(1, r)
        fr = [p for p, e in enumerate(v.ev) if e[0] in FINAL and e[1] == r]
        if not (p0 is not None and pr is not None and pr < p0 and not (fr and fr[0] < p0)):
            return False
        # ... and r was really going to execute: none of its other dependencies had failed or been ignored
        # when r was selected (a doomed task is reported unmet / ignored without its setup-tasks being touched)
        for dd in v.non_setup_deps(r):
            if any(e[0] in (2, 4) and len(e) > 1 and e[1] == dd for e in v.ev[:pr]):
                return False
        return True
    just = set(v.case['selected'])
    changed = True
    while changed:
        changed = False
        for t in list(just):
            for d in v.non_setup_deps(t):
                if d not in just:
                    just.add(d); changed = True
        for s in range(v.n):
            if s not in just and any(r in just and setup_justified(s, r, just) for r in requirers.get(s, ())):
                just.add(s); changed = True
    for s in range(v.n):
        if s not in just and v.first(1, s) is not None:
            bad.append(('setup-task-not-lazy', 'task %d processed although it is neither in the dependency closure of the selection nor the setup-task of a task that was going to run' % s))
    # ... and not on behalf of a requirer that can no longer execute because ANOTHER of its setup-tasks already
    # failed / is ignored when this one is first looked at (the requirer will be reported unmet / ignored)
    nonsetup_closure = set(v.case['selected'])
    todo = list(nonsetup_closure)
    while todo:
        t = todo.pop()
        for d in v.non_setup_deps(t):
            if d not in nonsetup_closure:
                nonsetup_closure.add(d); todo.append(d)
    for s in range(v.n):
        if s in nonsetup_closure or s not in firstpos or not requirers.get(s):
            continue
        p0 = firstpos[s]
        def doomed(r):
            return any(s2 != s and any(e[0] in (2, 4) and len(e) > 1 and e[1] == s2 for e in v.ev[:p0]) for s2 in v.setup.get(r, []))
        live = [r for r in requirers[s] if r in just and setup_justified(s, r, just)]
        if live and all(doomed(r) for r in live):
            bad.append(('setup-task-for-doomed-requirer', 'setup-task %d was processed on behalf of task %s although another setup-task of it had already failed / is ignored: the requirer can only be reported unmet / ignored' % (s, sorted(live))))
    # a task starts only after its setup-tasks finished is C01; teardown discipline:
    td = [i for i, r in enumerate(v.rows) if r['teardown']]
    starts = [e[1] for e in v.ev if e[0] == v.start_code]
    if v.rc in (0, 1, 2):
        if v.flavour in ('serial', 'thread'):
            got = [e[1] for e in v.ev if e[0] == 9]
            want = [t for t in reversed(starts) if t in td]
            if got != want:
                bad.append(('teardown-order', 'teardowns ran as %s, expected %s (reverse order of execution, once each)' % (got, want)))
            if got:
                pt = min(p for p, e in enumerate(v.ev) if e[0] == 9)
                if any(e[0] in (20, 21, 5) for e in v.ev[pt:]):
                    bad.append(('teardown-before-end', 'a teardown ran before all tasks had finished'))
        else:
            per = {}
            for e in v.ev:
                if e[0] == 20:
                    per.setdefault(e[2], []).append(e[1])
            for w, sts in per.items():
                got = [e[1] for e in v.ev if e[0] == 22 and e[2] == w]
                want = [t for t in reversed(sts) if t in td]
                if got != want:
                    bad.append(('teardown-order', 'worker %d ran teardowns %s, expected %s' % (w, got, want)))
            rep = sorted(e[1] for e in v.ev if e[0] == 9)
            if rep != sorted(t for t in starts if t in td):
                bad.append(('teardown-report', 'teardown reports %s do not match executed tasks with teardown %s' % (rep, sorted(t for t in starts if t in td))))
    return bad


def oracle_c19(v):
    bad = []
    for t in range(v.n):
        fs = v.finals(t)
        g = v.count(1, t)
        if fs and g != 1:
            bad.append(('report-shape', 'task %d has a final report but %d get_status reports' % (t, g)))
        if len(fs) > 1:
            bad.append(('report-shape', 'task %d has %d final reports' % (t, len(fs))))
        ex = v.count(5, t)
        st = v.count(20, t) if v.flavour != 'serial' else ex
        if ex > 1 or (v.flavour != 'serial' and v.rc in (0, 1, 2) and ex != st):
            bad.append(('execute-report', 'task %d: %d execute reports for %d action starts' % (t, ex, st)))
        if fs:
            code = fs[0][0]
            o = v.rows[t]['outcome']
            if v.started(t) and v.rc in (0, 1, 2):
                want = 6 if o == 'ok' else 4
                if code != want:
                    bad.append(('report-truth', 'task %d executed with outcome %s but was reported with code %d' % (t, o, code)))
                if code == 4:
                    wk = {'fail': 0, 'error': 1, 'saveerr': 3, 'failv': 0}.get(o)
                    if wk is not None and fs[0][2] != wk and not v.rows[t]['argerr']:
                        bad.append(('report-truth', 'task %d failure kind %d, expected %d' % (t, fs[0][2], wk)))
            if not v.started(t) and code == 6:
                bad.append(('report-truth', 'task %d reported successful without having been executed' % t))
    if v.rc in (0, 1, 2):
        kinds = [e[2] for e in v.ev if e[0] == 4]
        want = 0 if not kinds else (1 if all(k == 0 for k in kinds) else 2)
        if v.rc != want:
            bad.append(('exit-code', 'exit code %d, expected %d for failure kinds %s' % (v.rc, want, kinds)))
    return bad


ORACLES = {'C02': oracle_c02, 'C05': oracle_c05, 'C09': oracle_c09, 'C11': oracle_c11, 'C19': oracle_c19}

PROFILE = {
    'C02': dict(setup=0.5, shared=True),
    'C05': dict(failures=True),
    'C09': dict(cyclic=0.4),
    'C11': dict(setup=0.7, teardown=True),
    'C19': dict(failures=True, multi_fail=True),
}


def gen_for(pid, rng):
    prof = PROFILE.get(pid, {})
    cyclic = rng.random() < prof.get('cyclic', 0.0)
    c = runlib.gen_case(rng, cyclic=cyclic, profile=rng.choice(['mixed', 'mixed', 'calc', 'plain']))
    n = c['n']
    if prof.get('failures'):
        for t in c['tasks']:
            r = rng.random()
            if r < 0.22:
                t['outcome'] = rng.choice(['fail', 'fail', 'error', 'saveerr', 'failv'])
            if rng.random() < 0.08:
                t['check'] = 'err'
        if prof.get('multi_fail') and rng.random() < 0.5:
            c['cont'] = True
            for t in rng.sample(c['tasks'], min(n, rng.choice([2, 3]))):
                t['outcome'] = 'fail'; t['check'] = 'run'; t['argerr'] = False
    if prof.get('setup'):
        for i, t in enumerate(c['tasks']):
            later = list(range(i + 1, n)) if not cyclic else list(range(n))
            if later and rng.random() < prof['setup']:
                t['setup'] = sorted(set(t['setup'] + rng.sample(later, min(len(later), rng.choice([1, 1, 2])))))
        if prof.get('shared') and n >= 3:
            s = n - 1
            for t in c['tasks'][:-1]:
                if rng.random() < 0.5 and s not in t['setup']:
                    t['setup'] = t['setup'] + [s]
    if prof.get('teardown'):
        for t in c['tasks']:
            t['teardown'] = rng.random() < 0.6
    return c



def edge_family():
    """systematic small cases: one dependent (task 0), one dependency (task 1) attached through each kind
    of edge, every outcome of the dependency, dependency processed before / after / only through the
    dependent, plus an independent task; --continue; every flavour.  (A failed / ignored dependency that
    is ALREADY processed when the dispatcher first looks at the dependent takes another code path
    (_node_add_wait_run) than one that finishes later (_update_waiting).)"""
    def blank():
        return dict(task_dep=[], setup=[], calc_dep=[], file_edge=[], teardown=False, dbignore=False, check='run', argerr=False,
                    outcome='ok', calc_task=[], calc_file=[], calc_calc=[], getargs=[])
    cases = []
    variants = [('ok', {}), ('fail', dict(outcome='fail')), ('error', dict(outcome='error')), ('saveerr', dict(outcome='saveerr')),
                ('failv', dict(outcome='failv')), ('checkerr', dict(check='err')), ('ignored', dict(dbignore=True)), ('utd', dict(check='utd'))]
    for kind in ('task_dep', 'setup', 'calc_dep', 'file_edge', 'calc_returned_task', 'calc_returned_file', 'calc_returned_calc'):
        for vname, upd in variants:
            for sel in ([1, 0, 2], [0, 1, 2], [0, 2], [2, 1, 0]):
                for fl, k in (('serial', 1), ('thread', 2), ('proc', 2)):
                    t0, t1, t2, t3 = blank(), blank(), blank(), blank()
                    t1.update(upd)
                    n = 3
                    if kind in ('task_dep', 'setup', 'calc_dep', 'file_edge'):
                        t0[kind] = [1]
                    else:
                        # task 0 --calc_dep--> task 3 (fine), whose saved values name task 1
                        n = 4
                        t0['calc_dep'] = [3]
                        t3[{'calc_returned_task': 'calc_task', 'calc_returned_file': 'calc_file', 'calc_returned_calc': 'calc_calc'}[kind]] = [1]
                        if vname in ('utd', 'ok') and fl == 'serial':
                            # the calc task itself found up-to-date (its values come from the DB), processed first
                            tu = dict(t3); tu['check'] = 'utd'
                            cases.append(dict(n=n, tasks=[dict(t) for t in [t0, t1, t2, tu]], selected=[3] + list(sel), cont=True, always=False,
                                              flavour=fl, k=k, sched=[0] * 12))
                        if sel[0] != 0:
                            sel = [3] + sel      # the calc task is already processed when task 0 is first looked at
                        elif fl == 'serial' or k == 2:
                            # ... also when the returned task is NOT processed yet
                            cases.append(dict(n=n, tasks=[dict(t) for t in [t0, t1, t2, t3]], selected=[3] + list(sel), cont=True, always=False,
                                              flavour=fl, k=k, sched=[0] * 12))
                    tasks = [t0, t1, t2, t3][:n]
                    cases.append(dict(n=n, tasks=[dict(t) for t in tasks], selected=list(sel), cont=True, always=False,
                                      flavour=fl, k=k, sched=[0] * 12))
    # two dependencies: the interesting one (task 1) finishes while the dependent still waits for another
    # one (task 3), in both listing orders; the dependent's node exists first (it is the only selection)
    for kind in ('task_dep', 'setup', 'calc_dep', 'file_edge'):
        for vname, upd in variants:
            for order in ([1, 3], [3, 1]):
                for sel in ([0, 2], [0]):
                    for fl, k in (('serial', 1), ('thread', 2), ('proc', 2)):
                        t0, t1, t2, t3 = blank(), blank(), blank(), blank()
                        t1.update(upd)
                        t0[kind] = list(order)
                        cases.append(dict(n=4, tasks=[dict(t) for t in (t0, t1, t2, t3)], selected=list(sel), cont=True, always=False,
                                          flavour=fl, k=k, sched=[0] * 12))
    return cases

def run_property(ctx, pid, n_quick=320, n_thorough=4000, extra_cases=()):
    out = Outcome()
    oracle = ORACLES[pid]
    cases, skipped = [], 0
    todo = list(extra_cases) + edge_family() + [None] * ctx.n(n_quick, n_thorough)
    for item in todo:
        case = item if item is not None else gen_for(pid, ctx.rng)
        res = runlib.run_impl(case)
        if 'skip' in res:
            skipped += 1
            continue
        defs, expr = runlib.coq_case(case, res, len(cases))
        cases.append(dict(model=expr, expected=res['trace'] + [-1, res['rc']], defs=defs, case=case, res=res))
        v = View(case, res)
        out.count('%s:rc%s' % (case['flavour'], res['rc']))
        if len(res['events']) >= 6:
            out.nontrivial.add((case['flavour'], case['k'], tuple(res['trace'])))
        for shape, what in oracle(v):
            out.violations.append(dict(what=what + ' (%s runner)' % case['flavour'], shape='%s:%s' % (pid.lower(), shape), case=desc(v)))
    out.evaluations = len(cases)
    bad = common.compare_with_model(ctx, runlib.PRE, cases)
    out.traces_validated = len(cases)
    for i, m in bad:
        c = cases[i]
        out.mismatches.append(dict(case=desc(View(c['case'], c['res'])), impl=c['expected'], model=m))
    if cases:
        s = cases[len(cases) // 3]
        out.samples.append(desc(View(s['case'], s['res'])))
    out.extra['cases_skipped_set_order_or_load_error'] = skipped
    out.extra['trusted_base'] = ['deterministic scheduler harness/runlib.py (FakeQueue/FakeChild)', 'wake_rank/calc_rank oracles recorded from the run',
                                 'independent oracle harness/runfam.py oracle_%s' % pid.lower()]
    out.assumptions = ['scheduler granularity (commutation of main-thread segments and worker steps except through the queues)',
                       'process flavour simulated in threads with per-worker runner copies',
                       'the dependency manager is a recording fake at the runner seam']
    out.extra['edge_family_cases'] = len(edge_family())
    out.rule = ('every edge kind x dependency outcome x processing order x flavour on 3-4 task graphs (edge_family); random task graphs (2-10 tasks; task_dep, file_dep-on-target, setup, getargs, calc_dep incl. returned deps, failures of every kind, ignore, up-to-date, '
                '--continue/--always) x {serial, thread flavour, process flavour; k=1..4; random schedules}, profile biased towards %s; '
                'non-trivial = distinct trace with >= 6 events' % pid)
    return out
