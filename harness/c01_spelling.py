"""C01, spelling of file names -- "a file_dep that is another task's target" when target and file_dep are
WRITTEN in every way a dodo file can write a path (helper of harness/c01.py).

Dimension.  Every other part of the run family writes a target and the file_dep consuming it as the one plain
string 'tgt_<task>'.  Here each file has a base path and is written, independently at the target and at every
file_dep, as one of
    text variants   canon 'build/f.txt' | dot './build/f.txt' | dslash 'build//f.txt' | middot 'build/./f.txt'
                    | updir 'build/up/../f.txt' | trail 'build/f.txt/' | abs '/w/build/f.txt'
    python types    str | PurePath | Path | PurePosixPath
(also in the file_dep list a calc_dep task RETURNS, str only: saved values are JSON), together with the
existing dimensions: graph shape, all other edge kinds, selection, definition order (consumers are defined
before their producers), outcomes, runner flavour, k and schedule.

Oracle (computed from the declared input only, never from Task / TaskControl state).  doit's documented
conversion is: a str is the file name as it stands, a pathlib object stands for str(path).  key(str s) = s,
key(path p) = str(PurePath(p)) (pathlib is the oracle).  Task c depends on task p iff some file_dep of c and
some target of p have the same key; in particular whenever both are written with the same text and type.
The derived edges are put into the case as `file_edge` / `calc_file`, and runlib.check_dep_order judges the
observed events with them: c's actions must not start before p got its final report.  Two spellings of one
file with DIFFERENT keys (target './x' as str, file_dep Path('./x')) are counted (`alias-no-demand`) and not
judged: doit compares names, not files, and the property text does not say otherwise.

Model.  coq/Model/Implicit.v [control_init]: TaskControl.__init__ from the declarations (spellings) to the
task table; composed with run_serial / run_parallel it is compared event for event with the real run, and
[enc_init] is compared with the table the real TaskControl built.  Theorems: Properties/C01.v
C01_*_declared_dep_order, C01_*_returned_file_dep_order, C01_table_task_dep_only.

A second sub-part drives the real command line (`doit run`, real dependency manager, real files, stale
targets left by an older build, second run after the source changed; serial / -n 2 -P thread / -n 2) on
generated dodo files and judges the order of the logged action starts / ends with the same oracle.
"""
import os, subprocess, sys, tempfile, textwrap
from pathlib import PurePath, Path, PurePosixPath
import common, runlib

PRE = runlib.PRE + 'From DoitV Require Import Implicit.\n'

TEXT_VARIANTS = ('canon', 'dot', 'dslash', 'middot', 'updir', 'trail', 'abs')
KINDS = ('str', 'pure', 'path', 'posix')
ABS_ROOT = '/w'


# ------------------------------------------------------------------ spellings
def spell_text(base, variant, root=ABS_ROOT):
    """one way of writing the relative path `base` ('dir/name' or 'name')"""
    head, _, tail = base.rpartition('/')
    if variant == 'canon':
        return base
    if variant == 'dot':
        return './' + base
    if variant == 'dslash':
        return (head + '//' + tail) if head else ('.//' + tail)
    if variant == 'middot':
        return (head + '/./' + tail) if head else ('././' + tail)
    if variant == 'updir':
        return (head + '/up/../' + tail) if head else ('up/../' + tail)
    if variant == 'trail':
        return base + '/'
    if variant == 'abs':
        return root + '/' + base
    raise ValueError(variant)


def key_of(sp):
    """ORACLE: the name doit is documented to use for a spelling (kind, text)"""
    kind, text = sp
    return text if kind == 'str' else str(PurePath(text))


def obj_of(sp):
    kind, text = sp
    return {'str': lambda: text, 'pure': lambda: PurePath(text), 'path': lambda: Path(text), 'posix': lambda: PurePosixPath(text)}[kind]()


def relation(tsp, fsp):
    """how a file_dep spelling relates to a target spelling of the same file"""
    if tuple(tsp) == tuple(fsp):
        return 'same-spelling'
    return 'same-key' if key_of(tsp) == key_of(fsp) else 'alias-no-demand'


def all_spellings(base, kinds=KINDS, variants=TEXT_VARIANTS):
    return [(k, spell_text(base, v)) for k in kinds for v in variants]


# ------------------------------------------------------------------ oracle: declared edges
def derive(case):
    """fill file_edge / calc_file (producer ids) of every task from the declared spellings (the oracle) and
    return the expected load result: 'ok' | 'common-target'"""
    tasks = case['tasks']
    owner, status = {}, 'ok'
    for j, t in enumerate(tasks):
        for sp in t['targets_decl']:
            k = key_of(sp)
            if k in owner:
                status = 'common-target'
            owner.setdefault(k, j)
    for i, t in enumerate(tasks):
        t['file_edge'] = sorted(set(owner[key_of(sp)] for sp in t['file_dep_decl'] if key_of(sp) in owner))
        t['calc_file'] = [owner[key_of(sp)] for sp in t['calc_file_decl'] if key_of(sp) in owner]
    return status


def blank():
    return dict(task_dep=[], setup=[], calc_dep=[], file_edge=[], teardown=False, dbignore=False, check='run', argerr=False,
                outcome='ok', calc_task=[], calc_file=[], calc_calc=[], getargs=[], targets_decl=[], file_dep_decl=[], calc_file_decl=[])


# ------------------------------------------------------------------ real objects
def build_spelled(case):
    """runlib.build with `targets` / `file_dep` / returned file_dep written as the case declares them"""
    import threading
    from doit.task import Task
    from doit.control import TaskControl
    n = case['n']
    names = runlib.pick_names(n)
    ids = {nm: i for i, nm in enumerate(names)}
    log = []
    calc_values = {}
    for c, t in enumerate(case['tasks']):
        if t['calc_task'] or t['calc_file_decl'] or t['calc_calc']:
            calc_values[c] = {'task_dep': [names[j] for j in t['calc_task']],
                              'file_dep': [obj_of(sp) for sp in t['calc_file_decl']],
                              'calc_dep': [names[j] for j in t['calc_calc']]}
    gate = [None]
    task_list = []
    for i, t in enumerate(case['tasks']):
        def act(i=i, t=t):
            if gate[0]:
                gate[0](i)
            o = t['outcome']
            if o == 'fail':
                return False
            if o == 'error':
                raise RuntimeError('action error')
            if o == 'interrupt':
                raise KeyboardInterrupt('stop')
            return dict(calc_values[i]) if i in calc_values else True

        def act2(t=t):
            return t['outcome'] != 'failv'

        def td(i=i):
            w = threading.current_thread()
            if isinstance(w, runlib.FakeChild):
                log.append([22, i, w.idx])
        kw = {}
        if t['argerr']:
            kw['params'] = [{'name': 'p'}]
        task_list.append(Task(names[i], [act, act2], task_dep=[names[j] for j in t['task_dep']],
                              setup=[names[j] for j in t['setup']], calc_dep=[names[j] for j in t['calc_dep']],
                              file_dep=[obj_of(sp) for sp in t['file_dep_decl']], targets=[obj_of(sp) for sp in t['targets_decl']],
                              teardown=[td] if t['teardown'] else [], **kw))
    tc = TaskControl(task_list)
    tc.selected_tasks = [names[i] for i in case['selected']]
    return tc, names, ids, log, calc_values, gate


def run_spelled(case):
    old = runlib.build
    runlib.build = build_spelled
    try:
        return runlib.run_impl(case)
    finally:
        runlib.build = old


def all_schedules_spelled(case, limit):
    old = runlib.build
    runlib.build = build_spelled
    try:
        return runlib.all_schedules(case, limit=limit)
    finally:
        runlib.build = old


def observe_init(case):
    """what the real TaskControl made of the declarations, encoded like Implicit.enc_init"""
    from doit.exceptions import InvalidDodoFile, InvalidTask
    try:
        tc, names, ids, _log, _cv, _gate = build_spelled(case)
    except (InvalidTask, InvalidDodoFile) as e:
        msg = str(e)
        if 'common target' in msg:
            return [-2, 3]
        if 'must be unique' in msg:
            return [-2, 1]
        if 'does not exist' in msg or 'invalid setup task' in msg:
            return [-2, 2]
        return [-2, 9]
    except Exception:
        return [-2, 98]
    obs = []
    for i, t in enumerate(case['tasks']):
        real = tc.tasks[names[i]]
        obs += [ids.get(x, 97) for x in real.task_dep] + [-1]
        # what add_implicit_task_dep will find for the file names this task's actions return
        ret = [obj_of(sp) for sp in t['calc_file_decl']]
        obs += [ids.get(tc.targets[r], 97) for r in ret if r in tc.targets] + [-1]
    return obs


# ------------------------------------------------------------------ model side
class Texts:
    """numbering of character strings for the Coq model (ids from 100)"""
    def __init__(self):
        self.ids = {}

    def __call__(self, s):
        if s not in self.ids:
            self.ids[s] = 100 + len(self.ids)
        return self.ids[s]


def coq_spelling(tx, sp):
    kind, text = sp
    return '%s %d' % ('SStr' if kind == 'str' else 'SPath', tx(text))


def set_iteration_order(keys):
    """oracle for dc_fd_order: Python's iteration order of the set built by adding the keys one by one"""
    s = set()
    for k in keys:
        s.add(k)
    return list(s)


def coq_decl(case, idx):
    """Definitions ps<idx> (path_str oracle) and dl<idx> (the declarations) for one case"""
    names = runlib.pick_names(case['n'])
    tx = Texts()
    rows = []
    for i, t in enumerate(case['tasks']):
        calc_dep = sorted(t['calc_dep'], key=lambda j: hash(names[j]) & 7)      # iteration order of the calc_dep set (as runlib.model_input)
        task = '(Build_task %s %s %s %s %s %s %s %s %s [] %s)' % (
            runlib.nl(t['task_dep']), runlib.nl(t['setup']), runlib.nl(calc_dep), str(t['teardown']).lower(), str(t['dbignore']).lower(),
            runlib.CHECK[t['check']], str(bool(t['argerr'])).lower(), runlib.OUTC[t['outcome']], runlib.nl(t['calc_task']), runlib.nl(t['calc_calc']))
        order = [tx(k) for k in set_iteration_order([key_of(sp) for sp in t['file_dep_decl']])]
        rows.append('(%d, Build_decl %s [%s] [%s] %s [%s])' % (
            i, task, '; '.join(coq_spelling(tx, sp) for sp in t['targets_decl']), '; '.join(coq_spelling(tx, sp) for sp in t['file_dep_decl']),
            runlib.nl(order), '; '.join(coq_spelling(tx, sp) for sp in t['calc_file_decl'])))
    # path_str: str(PurePath(text)) for every text in use (pathlib is the oracle)
    arms = []
    for text in list(tx.ids):
        arms.append((tx(text), tx(str(PurePath(text)))))
    ps = 'Definition ps%d (x : name) : name := match x with %s | _ => x end.' % (idx, ' '.join('| %d => %d' % a for a in arms if a[0] != a[1]))
    dl = 'Definition dl%d : list (name * decl) := [%s].' % (idx, '; '.join(rows))
    return ps + '\n' + dl


def coq_run_case(case, res, idx):
    """the run of the table control_init derives from the declarations (instead of the table read off the real objects)"""
    _defs, expr = runlib.coq_case(case, res, idx)
    sfx = str(idx)
    defs = '\n'.join([coq_decl(case, idx),
                      # the table control_init derives, evaluated once (Implicit.table_list; ImplicitP.assoc_table_list: the same function on these keys)
                      'Definition tl%s : list (name * task) := Eval vm_compute in table_list (control_init ps%s dl%s) %s.' % (sfx, sfx, sfx, runlib.nl(range(case['n']))),
                      'Definition tb%s : name -> option task := assoc_task tl%s.' % (sfx, sfx),
                      runlib.coq_wake(res['wake'], sfx), runlib.coq_calc_rank(res['names'], sfx)])
    return defs, expr


def coq_init_case(case, idx):
    return coq_decl(case, idx), 'enc_init (control_init ps%d dl%d) %s' % (idx, idx, runlib.nl(range(case['n'])))


# ------------------------------------------------------------------ generators
def base_of(j, m, rng=None):
    dirs = ('build', 'out/gen', '')
    d = dirs[(j + m) % 3] if rng is None else rng.choice(dirs)
    return (d + '/' if d else '') + 'f%d_%d.dat' % (j, m)


def systematic(quick):
    """consumer 0 (defined first), producer 1, bystander 2; every (target spelling, file_dep spelling) pair of one
    file -- serial, only the consumer selected: the producer must be pulled in and finish first -- and, for the
    pairs written identically, every edge form (file_dep / returned by a calc_dep task) x selection x flavour"""
    out = []
    for base in ('build/out.txt', 'out.txt'):
        sps = all_spellings(base, kinds=('str', 'path'))
        for a, tsp in enumerate(sps):
            for b, fsp in enumerate(sps):
                if quick and a != b and (a + 2 * b + len(base)) % 3:
                    continue
                t0, t1, t2 = blank(), blank(), blank()
                t1['targets_decl'] = [tsp]
                t0['file_dep_decl'] = [('str', 'src.txt'), fsp]
                out.append(('sys-pair', dict(n=3, tasks=[t0, t1, t2], selected=[0], cont=True, always=False, flavour='serial', k=1, sched=[0] * 12)))
        same = all_spellings(base) if not quick else all_spellings(base, kinds=('str', 'path') if '/' in base else ('str',))
        for si, sp in enumerate(same):
            for form in ('file_dep', 'returned'):
                if form == 'returned' and sp[0] != 'str':
                    continue
                for li, sel in enumerate(([0], [0, 1, 2], [1, 0])):
                    for fi, (fl, k) in enumerate((('serial', 1), ('thread', 2), ('proc', 2))):
                        if quick and fl != 'serial' and (sel == [1, 0] or (si + li + fi) % 2):
                            continue
                        t0, t1, t2, t3 = blank(), blank(), blank(), blank()
                        t1['targets_decl'] = [sp, ('str', 'other_' + base)]
                        n = 3
                        if form == 'file_dep':
                            t0['file_dep_decl'] = [sp]
                        else:
                            n = 4
                            t0['calc_dep'] = [3]
                            t3['calc_file_decl'] = [sp, ('str', 'plain_file')]
                        out.append(('sys-same:%s' % form, dict(n=n, tasks=[t0, t1, t2, t3][:n], selected=list(sel), cont=True, always=False,
                                                                flavour=fl, k=k, sched=[0] * 12)))
    return out


def spell_random(rng):
    """a random run-family case (runlib.gen_case) whose file edges are re-written with spelled names"""
    c = runlib.gen_case(rng, n=rng.choice([2, 3, 4, 5, 6]), profile=rng.choice(['mixed', 'calc', 'plain']))
    tasks = c['tasks']
    n = c['n']
    for t in tasks:
        t['getargs'] = []
        t['targets_decl'], t['file_dep_decl'], t['calc_file_decl'] = [], [], []
        if rng.random() < 0.7:
            t['outcome'] = 'ok'; t['argerr'] = False
            t['check'] = 'run' if t['check'] == 'err' else t['check']
    wanted = set(j for t in tasks for j in list(t['file_edge']) + list(t['calc_file']))
    kinds = rng.choice([('str',), ('str',), ('str', 'path'), KINDS])
    for j in range(n):
        if j in wanted or rng.random() < 0.3:
            for m in range(rng.choice([1, 1, 2])):
                base = base_of(j, m, rng)
                tasks[j]['targets_decl'].append((rng.choice(kinds), spell_text(base, rng.choice(TEXT_VARIANTS))))
                tasks[j].setdefault('_bases', []).append(base)

    def consume(j, str_only):
        m = rng.randrange(len(tasks[j]['targets_decl']))
        tsp, base = tasks[j]['targets_decl'][m], tasks[j]['_bases'][m]
        r = rng.random()
        if r < 0.55 and (not str_only or tsp[0] == 'str'):
            return tsp
        cands = [sp for sp in all_spellings(base, kinds=('str',) if str_only else KINDS)]
        same = [sp for sp in cands if key_of(sp) == key_of(tsp)]
        other = [sp for sp in cands if key_of(sp) != key_of(tsp)]
        if r < 0.85 and same:
            return rng.choice(same)
        return rng.choice(other or same)

    for i, t in enumerate(tasks):
        for j in t['file_edge']:
            t['file_dep_decl'].append(consume(j, False))
            if rng.random() < 0.25:
                t['file_dep_decl'].append(consume(j, False))          # the same producer through a second entry
        if rng.random() < 0.5:
            t['file_dep_decl'].insert(rng.randrange(len(t['file_dep_decl']) + 1), (rng.choice(kinds), rng.choice(['src.txt', './src.txt', 'data/in%d.csv' % i])))
        for j in t['calc_file']:
            t['calc_file_decl'].append(consume(j, True))
        if t['calc_file'] or t['calc_task'] or t['calc_calc']:
            t['calc_file_decl'].append(('str', 'plain_file_%d' % i))
    if rng.random() < 0.05 and n >= 2:
        # two tasks building what doit takes for the same file: InvalidTask expected at load
        src = [j for j in range(n) if tasks[j]['targets_decl']]
        if src:
            j = rng.choice(src)
            tsp, base = tasks[j]['targets_decl'][0], tasks[j]['_bases'][0]
            same = [sp for sp in all_spellings(base) if key_of(sp) == key_of(tsp)]
            tasks[rng.choice([x for x in range(n) if x != j] or [j])]['targets_decl'].append(rng.choice(same))
    for t in tasks:
        t.pop('_bases', None)
    return c


# ------------------------------------------------------------------ the class-level part
def describe(case, res=None):
    d = dict(part='spelling', tasks=[{k: v for k, v in t.items()} for t in case['tasks']], selected=case['selected'], flavour=case['flavour'],
             k=case['k'], cont=case['cont'], always=case['always'],
             keys=dict(targets=[[key_of(sp) for sp in t['targets_decl']] for t in case['tasks']],
                       file_dep=[[key_of(sp) for sp in t['file_dep_decl']] for t in case['tasks']]))
    if res is not None:
        d['sched'] = case['sched'][:len(res['arity'])]
        d['events'] = res['events']
        d['exit'] = res['rc']
    return d


def file_id(text):
    """which file a text names (normalised; only used to LABEL pairs for the distribution / messages, never to judge)"""
    p = os.path.normpath(text)
    return p[len(ABS_ROOT) + 1:] if p.startswith(ABS_ROOT + '/') else p


def spelled_edges(case):
    """[(consumer, producer, relation, target spelling, file_dep spelling)] for every (file_dep entry, target entry) pair naming one file"""
    out = []
    for i, t in enumerate(case['tasks']):
        for fsp in list(t['file_dep_decl']) + list(t['calc_file_decl']):
            for j, u in enumerate(case['tasks']):
                for tsp in u['targets_decl']:
                    if file_id(fsp[1]) == file_id(tsp[1]):
                        out.append((i, j, relation(tsp, fsp), tuple(tsp), tuple(fsp)))
    return out


def class_part(ctx, out):
    rng = ctx.rng
    run_cases, init_cases = [], []
    todo = list(systematic(ctx.quick)) + [('rnd', None)] * ctx.n(140, 1500)
    n_load_err = 0
    for kind, case in todo:
        if case is None:
            case = spell_random(rng)
        status = derive(case)
        # the table TaskControl builds vs. Implicit.control_init
        defs, expr = coq_init_case(case, len(init_cases))
        init_cases.append(dict(model=expr, expected=observe_init(case), defs=defs, case=case))
        for (i, j, rel, tsp, fsp) in spelled_edges(case):
            out.count('spelling:%s:target-%s/file_dep-%s' % (rel, tsp[0], fsp[0]))
        if status != 'ok':
            n_load_err += 1
            out.count('spelling:%s' % status)
            continue
        runs = []
        if case['flavour'] == 'serial' or case['n'] > 4 or (kind == 'rnd' and rng.random() < 0.5):
            res = run_spelled(case)
            if 'skip' not in res:
                runs.append((case, res))
            elif res['skip'].startswith('load-error'):
                # the declarations are fine (oracle), the real code refused them
                out.violations.append(dict(what='TaskControl refused a valid set of tasks: %s' % res['skip'], shape='c01:spelling-load-error', case=describe(case)))
        else:
            runs = all_schedules_spelled(case, (3 if kind != 'rnd' else 10) if ctx.quick else (12 if kind != 'rnd' else 30))
        for cc, res in runs:
            defs, expr = coq_run_case(cc, res, len(run_cases))
            run_cases.append(dict(model=expr, expected=res['trace'] + [-1, res['rc']], defs=defs, case=cc, res=res))
            out.count('spelling:%s:%s' % (kind, cc['flavour']))
            demanded = [(i, j) for (i, j, rel, _t, _f) in spelled_edges(cc) if rel != 'alias-no-demand']
            if demanded and any(ev[0] in (5, 20) for ev in res['events']):
                sig = tuple(sorted(set((rel, tsp, fsp) for (_i, _j, rel, tsp, fsp) in spelled_edges(cc))))
                out.nontrivial.add(('spelling', cc['flavour'], cc['k'], sig, tuple(res['trace'])))
            bad = runlib.check_dep_order(res['events'], res['real_deps'], cc['flavour'], cc)
            if bad:
                b = bad[0]
                how = [(rel, tsp, fsp) for (i, j, rel, tsp, fsp) in spelled_edges(cc) if i == b['task'] and j in b['unfinished_deps']]
                out.violations.append(dict(
                    what='task %s started before %s finished (%s runner); the file_dep / target spellings relating them: %s'
                         % (b['task'], b['unfinished_deps'], cc['flavour'], how or 'none (another kind of edge)'),
                    shape='c01:spelling-dep-order:%s' % cc['flavour'], case=describe(cc, res)))
    out.evaluations += len(run_cases) + len(init_cases)
    for cases, tag, label in ((init_cases, 'spinit', 'table'), (run_cases, 'sprun', 'run')):
        bad = common.compare_with_model(ctx, PRE, cases, tag=tag)
        out.traces_validated += len(cases)
        for i, m in bad:
            c = cases[i]
            out.mismatches.append(dict(case=dict(compared=label, **describe(c['case'], c.get('res'))), impl=c['expected'], model=m))
    if run_cases:
        s = run_cases[len(run_cases) // 2]
        out.samples.append(describe(s['case'], s['res']))
    out.extra['spelling_class_runs'] = len(run_cases)
    out.extra['spelling_tables_compared'] = len(init_cases)
    out.extra['spelling_common_target_cases'] = n_load_err


# ------------------------------------------------------------------ the command-line part
CLI_HEAD = textwrap.dedent('''
    import os, time
    from pathlib import Path, PurePath
    from doit import create_after
    DOIT_CONFIG = {'verbosity': 0}
    HERE = os.path.dirname(os.path.abspath(__file__))

    def S(kind, text):
        return text if kind == 'str' else (PurePath(text) if kind == 'pure' else Path(text))

    def log(msg):
        fd = os.open(os.path.join(HERE, 'order.log'), os.O_WRONLY | os.O_CREAT | os.O_APPEND)
        os.write(fd, (msg + '\\n').encode())
        os.close(fd)

    def work(name, reads, writes, nap):
        log('start ' + name)
        got = []
        for r in reads:
            with open(r) as fh:
                got.append(fh.read())
        time.sleep(nap)
        for w in writes:
            with open(w, 'w') as fh:
                fh.write('%s built this from %r' % (name, got))
        log('end ' + name)
''')
CLI_VARIANTS = ('canon', 'dot', 'dslash', 'middot', 'updir', 'abs')
CLI_RUNNERS = (('serial', []), ('thread', ['-n', '2', '-P', 'thread']), ('proc', ['-n', '2']))


def cli_dodo(tasks):
    """tasks: list (definition order) of dict(name, file_dep=[sp], targets=[sp], delayed=bool, nap=float)"""
    src = [CLI_HEAD]
    if any(t.get('delayed') for t in tasks):
        src.append("def task_pre():\n    return {'actions': [(log, ['start pre']), (log, ['end pre'])]}\n")
    for t in tasks:
        fd = ', '.join('S(%r, %r)' % tuple(sp) for sp in t['file_dep'])
        tg = ', '.join('S(%r, %r)' % tuple(sp) for sp in t['targets'])
        reads = [sp[1] for sp in t['file_dep']]
        writes = [sp[1] for sp in t['targets']]
        if t.get('delayed'):
            src.append("@create_after(executed='pre')")
        src.append("def task_%s():\n    return {'actions': [(work, [%r, %r, %r, %r])], 'file_dep': [%s], 'targets': [%s]}\n"
                   % (t['name'], t['name'], reads, writes, t.get('nap', 0.0), fd, tg))
    return '\n'.join(src)


def cli_scenario(rng, d, rel_a, rel_b, variant, kinds, delayed):
    """chain  consumer <- middle <- producer (<- src.txt) plus a bystander, consumers defined first.
    producer's target / middle's file_dep related by rel_a, middle's target / consumer's file_dep by rel_b"""
    def pair(base, rel):
        tsp = (rng.choice(kinds), spell_text(base, variant, root=d))
        cands = [(k, spell_text(base, v, root=d)) for k in KINDS[:3] for v in CLI_VARIANTS]
        if rel == 'same-spelling':
            return tsp, tsp
        pool = [sp for sp in cands if relation(tsp, sp) == rel]
        return tsp, (rng.choice(pool) if pool else tsp)
    pt, mf = pair('build/obj.bin', rel_a)
    mt, cf = pair('out.txt' if rng.random() < 0.5 else 'build/out.txt', rel_b)
    tasks = [dict(name='consumer', file_dep=[cf], targets=[], delayed=delayed, nap=0.0),
             dict(name='bystander', file_dep=[('str', 'src.txt')], targets=[], nap=0.0),
             dict(name='middle', file_dep=[mf, ('str', './src.txt')], targets=[mt], nap=0.05),
             dict(name='producer', file_dep=[('str', 'src.txt')], targets=[pt], nap=0.05)]
    return tasks


def cli_deps(tasks):
    """ORACLE: declared dependencies by key"""
    owner = {}
    for t in tasks:
        for sp in t['targets']:
            owner.setdefault(key_of(sp), t['name'])
    deps = {t['name']: sorted(set(owner[key_of(sp)] for sp in t['file_dep'] if key_of(sp) in owner) | ({'pre'} if t.get('delayed') else set()))
            for t in tasks}
    deps['pre'] = []
    return deps


def cli_part(ctx, out):
    rng = ctx.rng
    plan = []
    rels = ('same-spelling', 'same-key', 'alias-no-demand')
    for vi, variant in enumerate(CLI_VARIANTS):
        for ri, (rname, rargs) in enumerate(CLI_RUNNERS):
            if ctx.quick and (vi + ri) % 3 and not (variant == 'dot' and rname == 'serial'):
                continue
            plan.append((variant, rname, rargs, 'same-spelling', 'same-spelling'))
    for i in range(ctx.n(4, 60)):
        rname, rargs = rng.choice(CLI_RUNNERS)
        plan.append((rng.choice(CLI_VARIANTS), rname, rargs, rng.choice(rels), rng.choice(rels)))
    n_runs = 0
    for pi, (variant, rname, rargs, rel_a, rel_b) in enumerate(plan):
        d = tempfile.mkdtemp(prefix='spell_', dir=ctx.tmp)
        os.makedirs(os.path.join(d, 'build', 'up'))
        os.makedirs(os.path.join(d, 'up'))
        kinds = rng.choice([('str',), ('str',), ('str', 'path'), ('pure', 'path')])
        delayed = rng.random() < 0.25
        tasks = cli_scenario(rng, d, rel_a, rel_b, variant, kinds, delayed)
        deps = cli_deps(tasks)
        dodo = cli_dodo(tasks)
        open(os.path.join(d, 'dodo.py'), 'w').write(dodo)
        open(os.path.join(d, 'src.txt'), 'w').write('source v1')
        # history: the targets are there, left by an older build (always when an undemanded alias is read: nobody is obliged to build it first)
        stale = rng.random() < 0.6 or 'alias-no-demand' in (rel_a, rel_b)
        if stale:
            for t in tasks:
                for sp in t['targets']:
                    open(os.path.join(d, os.path.normpath(sp[1])), 'w').write('stale')
        selection = rng.choice([[], [], ['consumer'], ['consumer', 'producer']])
        steps = ['first'] + (['after-source-change'] if (not ctx.quick or pi % 3 == 0) else [])
        for step in steps:
            logf = os.path.join(d, 'order.log')
            if os.path.exists(logf):
                os.remove(logf)
            if step == 'after-source-change':
                open(os.path.join(d, 'src.txt'), 'w').write('source v2, longer')
            try:
                p = subprocess.run([sys.executable, '-m', 'doit', 'run', '--db-file', 'doit.db', '--backend', 'json'] + rargs + selection,
                                   cwd=d, env=common.impl_env(), capture_output=True, text=True, timeout=120)
                rc, err = p.returncode, (p.stdout + p.stderr)[-600:]
            except subprocess.TimeoutExpired:
                rc, err = 98, 'timeout'
            events = open(logf).read().split('\n')[:-1] if os.path.exists(logf) else []
            n_runs += 1
            out.evaluations += 1
            out.count('spelling-cli:%s:%s/%s:%s:rc%s' % (rname, rel_a, rel_b, step, rc))
            case = dict(part='spelling-cli', dodo=dodo, workdir_layout=dict(src='src.txt', stale_targets=stale, dirs=['build/up', 'up'], root=d),
                        args=rargs + selection, step=step, declared_deps=deps, events=events, exit=rc, output=err)
            demanded = [(c, p_) for c in deps for p_ in deps[c]]
            if demanded and any(e.startswith('start ') for e in events):
                out.nontrivial.add(('spelling-cli', rname, variant, rel_a, rel_b, step, tuple(selection), tuple(kinds), delayed))
            tail = ' (`doit run %s`, %s runner, %s run; names as written in the dodo file: %s)' % (
                ' '.join(rargs + selection), rname, step, {t['name']: dict(file_dep=t['file_dep'], targets=t['targets']) for t in tasks})
            n_bad = 0
            for c_, ds in deps.items():
                if 'start ' + c_ not in events:
                    continue
                at = events.index('start ' + c_)
                for p_ in ds:
                    if 'end ' + p_ not in events[:at]:
                        # p_ may legitimately not execute at all (found up-to-date in a later run); then it must not execute AFTER c_ started either
                        if 'start ' + p_ in events or step == 'first':
                            n_bad += 1
                            out.violations.append(dict(
                                what='the actions of `%s` started %s `%s`, which builds its file_dep, had finished' % (c_, 'before' if 'start ' + p_ in events else 'without', p_) + tail,
                                shape='c01:spelling-cli-dep-order', case=case))
            if rc != 0 and not n_bad:
                out.violations.append(dict(what='the run ended with exit code %s: %s' % (rc, err[-300:]) + tail, shape='c01:spelling-cli-exit', case=case))
    out.extra['spelling_cli_runs'] = n_runs


def spelling_part(ctx, out):
    class_part(ctx, out)
    cli_part(ctx, out)
    out.rule += ('; spelling part: every file edge written with the target and the file_dep spelled independently (7 text variants x str / PurePath / Path / '
                 'PurePosixPath; also file_dep returned by calc_dep tasks), systematic pairs + random graphs, all runner flavours, judged by key equality computed '
                 'from the declarations and compared with Model/Implicit.v control_init composed with the runner models; plus %d `doit run` command lines on generated '
                 'dodo files with real files and history (stale targets, second run after a source change); non-trivial there = distinct trace / scenario with >= 1 '
                 'demanded spelled edge and >= 1 task start' % out.extra.get('spelling_cli_runs', 0))
