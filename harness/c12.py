"""C12 -- task selection yields exactly the requested closure.

Part A (correspondence with Model/Select.v): random task lists built from real `Task` objects (groups and
sub-tasks `basename:name`, targets, file_dep on other tasks' targets, task_dep with wild-cards, setup,
calc_dep, delayed creators with `executed` / `target_regex`, and the load errors duplicate name / dangling
dependency / common target) and random selections mixing names, globs matching 0..n names, sub-task and
group names, targets, unknown names, sub-tasks and regex targets of delayed creators.
  A1  `TaskControl(task_list, auto_delayed_regex).process(selection)`: the exception (kind and names) or
      selected_tasks + task_dep of every task in tasks order + the targets dict  ==  enc_result (select_core ..)
  A2  the same task list through `DoitMain(loader).run(['run', [-s], [--auto-delayed-regex], *args])` with
      DOIT_CONFIG default_tasks on/off; the seam is `doit.cmd_run.Runner` (replaced by a stub that keeps the
      TaskDispatcher it is given): exit code 3, or what the runner would have been started with
      ==  enc_cmd (cmd_run_select ..)
Task arguments: tasks may declare pos_arg and params (a bool short, a str short, a bool long option); command
lines contain `<glob> <names..>`, `<pos_arg task> <values..>`, `<task> -f -v VAL <names..>`, unknown / stray
option tokens, unknown names after globs (A1 also observes CmdParseError = [4]).
The string functions are oracles: the harness evaluates '*' in s, fnmatch.fnmatch, split(':',1)[0], re.match,
the '_regex_target_..' format and startswith on every string of the case and passes the tables to Coq.
Scripted cases (every seed, both tiers): a `basename:sub` name of a delayed creator together with an element only the
target regexes resolve (target_regex and --auto-delayed-regex; before / after / between; two creators; unknown name), the
shape of the defect repaired by 01f48fb.  Oracle on every A1 case (no model involved): a task that process() added to
TaskControl.tasks is a name of the command line (sub-task placeholder) or `_regex_target_<f>:<k>` with k a delayed task of
the LOADED task list; nothing but the four documented exceptions escapes (shape `subtask-placeholder-regex`).
Spellings of one path (round D, seeded C12d): targets / file_dep / selection elements / default_tasks also come as
`./out/a.o`, `out//a.o`, `out/../out/a.o`, `out/./a.o`, `./f1`, absolute `/w/out/b.o`, `/w//out/b.o` ..  The code looks a
target up by the EXACT string (control.py 106-112, 131-133, 211): two spellings are two names.  The interning below is by
exact string too, so the model (names opaque) sees them as different names.  Scripted cases (every seed): a target declared
in non-normal form selected by exactly that string / by the normal form / through default_tasks / with --single, file_dep in
the same and in another spelling.  Oracle (no model), shape `target-spelling`: a declared target string that is an element
of the command line selects its producer (never InvalidCommand on it); a string that is only ANOTHER spelling of a declared
target (and no task, no task list with delayed creators) is rejected.
Encoding (list Z): strings are interned to ids (task names first, in task_list order);
  init error [1; kind; a; b; c]   (kind 0 duplicate name, 1/2/3 dangling task_dep/setup/calc_dep, 4 common target)
  not found  [2; id]              ok [0; selected..; -1; {task; task_dep..; -1}..; -2; {file; producer}..]
  A2 failed selection [3]

Part B (property oracle on complete real runs): dodo modules rendered as source text (plain tasks, groups
with sub-tasks, optional group-level task_dep, create_after creators), executed in-process by
`DoitMain(ModuleTaskLoader(ns)).run(['run', ...])` with a fresh DB, a recording reporter and recording
python-actions.  Checked against a closure computed from the definitions alone (no doit code):
exit code (3 and NOTHING processed/executed for an unknown name), set of processed tasks == closure,
executed == processed minus action-less tasks, start order of the selected tasks.  The command line is read by
split_selection (documented behaviour): every element after a glob is selected or rejected; the tokens after an
explicitly named pos_arg task are its values (checked against what its action received); a task's own options
are consumed.  Directed runs include `d:1 <file>` where <file> is resolved by target_regex / --auto-delayed-regex to a task
of the creator d (known target) or to nothing (unknown target: exit 3 once the creator ran, no traceback); a started task
whose name has two colons without being on the command line, or a traceback, is reported as `subtask-placeholder-regex`.
Targets and file_dep are written in several spellings (absolute, relative to the cwd of the run, `./x`, `sub/../x`,
`<dir>//x`, `<dir>/./x`); selections / default_tasks name a target by the declared string (producer + closure expected) or by
another spelling of the same file (exit 3, nothing runs); a file_dep spelled differently from the declared target is no
implicit dependency.  A failure on such an input is reported under the shape `target-spelling`.

Part C (harness/c12_cli.py, round F, seeded C12f): the command line in front of the selection -- degenerate names (the empty
string, blanks, real names changed by case / leading / trailing characters, the word `run` out of place) at every position,
`name=value` variables anywhere, explicit `run` / default command, --single, default_tasks holding such names.  C1: stubbed
runner == enc_cmd (doit_main ..) (Model/Select.v Section Cli) + an oracle from the task list and the command line alone;
C2: complete runs in-process through check_b; C3: the same through `python -m doit` in a sub-process.

Part D (harness/c12_single.py, round G, seeded C12g): several groups whose dependencies cross the group borders (the definition of
a group / a sub-task names a plain task, another group, a sub-task of another group by name or wild-card, `*:x` over own and foreign
sub-tasks, file_dep on a foreign target) x selections of groups / sub-tasks / patterns / targets x --single.  D1: stubbed runner ==
enc_cmd (doit_main ..) + an oracle on the selected list and the task_dep of every task from the declarations alone (a selected group
depends on exactly the sub-tasks declared in it); D2 / D3: complete runs in-process / in a sub-process through check_b.
"""
import fnmatch, io, os, re, sys
import common
import c12_cli
import c12_single
from common import Outcome

PRE = 'From DoitV Require Import Base Select.\nOpen Scope N_scope.\n'


# ---------------------------------------------------------------------------------------------
# helpers
class Intern:
    def __init__(self):
        self.ids, self.strs = {}, []

    def __call__(self, s):
        if s not in self.ids:
            self.ids[s] = len(self.strs)
            self.strs.append(s)
        return self.ids[s]


class Quiet:
    """swallow what doit prints and run inside a temp dir (nothing may land in the cwd of the check);
    always restore the real streams and the cwd"""
    def __init__(self, workdir):
        self.workdir = workdir

    def __enter__(self):
        self.real = (sys.stdout, sys.stderr)
        self.cwd = os.getcwd()
        os.chdir(self.workdir)
        self.out, self.err = io.StringIO(), io.StringIO()
        sys.stdout, sys.stderr = self.out, self.err
        return self

    def __exit__(self, *a):
        sys.stdout, sys.stderr = self.real
        os.chdir(self.cwd)


def nl(xs):
    return '[' + '; '.join(str(x) for x in xs) + ']'


def opt(x, f=str):
    return 'None' if x is None else '(Some %s)' % f(x)


def fun1(name, ty, arms, default):
    """Definition name (s : name) : ty := match s with arms | _ => default end."""
    body = ' '.join('| %d => %s' % (k, v) for k, v in sorted(arms.items()))
    return 'Definition %s (s : name) : %s := match s with %s | _ => %s end.' % (name, ty, body, default)


def fun2(name, ty, arms, default):
    """arms: {a: {b: value}}"""
    outer = []
    for a, inner in sorted(arms.items()):
        if not inner:
            continue
        outer.append('| %d => match t with %s | _ => %s end' % (a, ' '.join('| %d => %s' % (b, v) for b, v in sorted(inner.items())), default))
    return 'Definition %s (s t : name) : %s := match s with %s | _ => %s end.' % (name, ty, ' '.join(outer), default)


# ---------------------------------------------------------------------------------------------
# Part A: generation
PATTERNS = ['*', 'g:*', 'a*', '*b*', 'zz*', '*:x', 'h:*', '[ab]*', '*.o', 'd*', '*:*']
REGEXES = ['.*\\.o', 'q.*', 'd:.*', 'zz']
# per-task options, within the domain of the option model of Select.v: exact spellings, str values
PARAMS = [dict(name='flag', short='f', type=bool, default=False), dict(name='val', short='v', type=str, default=''),
          dict(name='lng', long='lng', type=bool, default=False)]
OPT_TOKENS = {'flag': ['-f'], 'val': ['-v', 'val1'], 'lng': ['--lng']}


# one file, several strings: os.path.normpath maps every member of a group to the key
SPELLINGS = {'out/a.o': ['./out/a.o', 'out//a.o', 'out/../out/a.o', 'out/./a.o'],
             'f1': ['./f1', 'out/../f1'],
             'x.o': ['./x.o', './/x.o'],
             '/w/out/b.o': ['/w//out/b.o', '/w/out/../out/b.o', '/w/./out/b.o']}
assert all(os.path.normpath(x) == k and x != k for k, v in SPELLINGS.items() for x in v)


def other_spellings(f):
    """the other strings of the pool that name the same path as f"""
    k = os.path.normpath(f)
    return [x for x in [k] + SPELLINGS.get(k, []) if x != f]


def gen_a(rng):
    plain = rng.sample(['a', 'b', 'c', 'ab', 'b2', 'x.o', 'a*', 'f1', '_regex_target_q'], rng.randrange(1, 6))
    specs = []   # (name, kind, parent)
    for nm in plain:
        specs.append([nm, 'plain', None])
    for g in rng.sample(['g', 'h'], rng.choice([0, 0, 1, 1, 2])):
        subs = rng.sample(['x', 'y', '1', 'ab'], rng.randrange(0, 4))
        block = [[g, 'group', None]] + [['%s:%s' % (g, s), 'sub', g] for s in subs]
        pos = rng.randrange(0, len(specs) + 1)
        specs[pos:pos] = block
    n_delayed = rng.choice([0, 0, 0, 1, 1, 2])
    for d in rng.sample(['d', 'e'], n_delayed):
        specs.insert(rng.randrange(0, len(specs) + 1), [d, 'delayed', None])
    if rng.random() < 0.15:
        rng.shuffle(specs)
    names = [s[0] for s in specs]
    base_files = ['f0', 'f1', 'f2', 'f3', 'f4', 'x.o', 'out/a.o', 'q1']
    files = list(base_files)
    spell = rng.random() < 0.45     # a case with several spellings of the same paths
    if spell:
        files += rng.sample(['/w/out/b.o'] + [x for v in SPELLINGS.values() for x in v], rng.randrange(2, 8))
    free_targets = list(files)
    rng.shuffle(free_targets)
    if spell:   # the spelled names are handed out as targets first (pop() takes from the end)
        free_targets.sort(key=lambda f: (f not in base_files) + rng.random())
    tasks = []
    defect = rng.choices(['none', 'dupname', 'baddep', 'badsetup', 'badcalc', 'duptarget'], weights=[80, 4, 4, 3, 3, 5])[0]
    for nm, kind, parent in specs:
        t = dict(name=nm, task_dep=[], post_dep=[], setup=[], calc_dep=[], file_dep=[], targets=[],
                 has_subtask=(kind == 'group'), subtask_of=parent, loader=None, pos_arg=None, params=[])
        if kind in ('plain', 'sub'):
            if rng.random() < 0.18:
                t['pos_arg'] = 'files'
            if rng.random() < 0.25:
                t['params'] = rng.sample(PARAMS, rng.randrange(1, 4))
        if kind == 'delayed':
            t['loader'] = dict(executed=rng.choice([None, None] + names), regex=rng.choice([None, None] + REGEXES))
        else:
            k = rng.choice([0, 0, 1, 1, 2, 3])
            if kind == 'group':
                k = rng.choice([0, 0, 0, 1])
            for _ in range(k):
                r = rng.random()
                t['task_dep'].append(rng.choice(PATTERNS) if r < 0.3 else rng.choice(names))
            if rng.random() < 0.2:
                t['setup'] = [rng.choice(names)]
            if rng.random() < 0.08:
                t['calc_dep'] = rng.sample(names, min(len(names), rng.choice([1, 2])))
            if kind != 'group':
                t['file_dep'] = rng.sample(files, rng.choice([0, 0, 1, 2, 3]))
                for _ in range(rng.choice([0, 0, 1, 1, 2])):
                    if free_targets:
                        t['targets'].append(free_targets.pop())
        tasks.append(t)
    for t in tasks:   # the loader appends the sub-task names to the group task
        if t['subtask_of']:
            next(g for g in tasks if g['name'] == t['subtask_of'])['post_dep'].append(t['name'])
    for t in tasks:   # shapes the loader never produces but TaskControl accepts: --single reads subtask_of
        if rng.random() < 0.06:
            t['subtask_of'] = rng.choice([None, t['name']] + names)
    victim = rng.choice(tasks)
    if defect == 'dupname':
        tasks.insert(rng.randrange(0, len(tasks) + 1), dict(victim, task_dep=list(victim['task_dep']), post_dep=[], targets=[]))
    elif defect == 'baddep':
        victim['task_dep'].insert(rng.randrange(0, len(victim['task_dep']) + 1), rng.choice(['nope', 'g:nope', 'f0']))
    elif defect == 'badsetup':
        victim['setup'] = victim['setup'] + ['nope']
    elif defect == 'badcalc':
        victim['calc_dep'] = victim['calc_dep'] + ['nope']
    elif defect == 'duptarget':
        have = [f for t in tasks for f in t['targets']]
        victim['targets'] = victim['targets'] + [rng.choice(have) if have else 'f0'] + ([] if have else ['f0'])

    by_name = {t['name']: t for t in tasks}

    def element():
        """one item of a command line: a name / pattern / target / unknown name, possibly followed by option tokens"""
        r = rng.random()
        if spell and rng.random() < 0.3:
            r = 0.45
        if r < 0.40:
            nm = rng.choice(names)
            toks = [nm]
            if by_name[nm]['params'] and rng.random() < 0.6:
                for prm in rng.sample(by_name[nm]['params'], rng.randrange(1, len(by_name[nm]['params']) + 1)):
                    toks += OPT_TOKENS[prm['name']]
            return toks
        if r < 0.52:
            declared = [f for t in tasks for f in t['targets']]
            if spell and declared and rng.random() < 0.7:   # a declared target: by that very string / by another spelling of it
                f = rng.choice(declared)
                if rng.random() < 0.35 and other_spellings(f):
                    f = rng.choice(other_spellings(f))
                return [f]
            return [rng.choice(files)]
        if r < 0.72:
            return [rng.choice(PATTERNS + ['a?', '[ab]'])]
        if r < 0.80:   # option tokens wherever they fall: valid, unknown, value missing
            return rng.choice([['-f'], ['-v', 'val2'], ['--lng'], ['-z'], ['-v'], ['-f', '-v', 'b'], ['--zz']])
        return [rng.choice(['zz', 'g:zz', 'h:x', 'd:7', 'e:x', 'd:7:8', 'zz:1', 'q.o', 'qq', ':x', 'd:', '_regex_target_zz'])]

    def selection(k):
        toks = [x for _ in range(k) for x in element()]
        while toks and toks[0].startswith('-'):   # would be an option of `doit run` itself
            toks.pop(0)
        return toks
    sel = selection(rng.choice([0, 1, 1, 2, 2, 3, 4]))
    default = None if rng.random() < 0.5 else selection(rng.choice([0, 1, 2, 3]))
    return dict(tasks=tasks, sel=sel, sel_none=rng.random() < 0.12, default=default,
                single=rng.random() < 0.4, auto=rng.random() < 0.3, defect=defect, spell=spell)


def scripted_a():
    """by-name sub-task of a delayed creator + an element resolved through the target regexes (repair 01f48fb)"""
    def t(name, loader=None, **kw):
        d = dict(name=name, task_dep=[], post_dep=[], setup=[], calc_dep=[], file_dep=[], targets=[], has_subtask=False,
                 subtask_of=None, loader=loader, pos_arg=None, params=[])
        d.update(kw)
        return d
    ld = lambda executed=None, regex=None: dict(executed=executed, regex=regex)
    one = lambda rx, ex=None: [t('a', targets=['f0']), t('c', loader=ld(ex, rx)), t('b', file_dep=['f0'])]
    two = lambda: [t('c', loader=ld()), t('a', targets=['f0']), t('e', loader=ld('a', 'q.*'))]
    rows = [
        (one(None), ['c:1', 'f1'], True),                    # --auto-delayed-regex, unknown file after the sub-task
        (one('.*\\.o'), ['c:1', 'x.o'], False),              # target_regex
        (one('.*\\.o'), ['c:1', 'x.o'], True),
        (one(None), ['f1', 'c:1', 'f2'], True),              # regex element before and after
        (one(None), ['c:1', 'c:2', 'f0', 'f1', 'a'], True),  # two placeholders, a static target in between
        (one('.*\\.o', 'a'), ['c:1:2', 'out/a.o'], False),   # a sub-task name with two colons of its own; creator with executed=
        (one(None), ['c:', 'f1'], True),
        (one('.*\\.o'), ['c:1', 'zz'], False),               # regex does not match: not found
        (one(None), ['c:1', 'zz'], False),                   # no regex, no --auto-delayed-regex: not found
        (two(), ['c:1', 'e:x', 'q1', 'zz'], True),           # q1: c (auto) and e (regex); zz: c only
        (two(), ['e:x', 'q1'], False),
        (two(), ['q1', 'e:x', 'c:1', 'q.o'], True),
    ]
    out = []
    for tasks, sel, auto in rows:
        out.append(dict(tasks=tasks, sel=sel, sel_none=False, default=None, single=False, auto=auto, defect='none', scripted=True))
    # through DOIT_CONFIG default_tasks and with --single
    out.append(dict(tasks=one(None), sel=[], sel_none=False, default=['c:1', 'f1'], single=True, auto=True, defect='none', scripted=True))
    # spellings of one path: the target table is keyed by the declared string (seeded C12d keyed it by os.path.normpath)
    sp = lambda tg, fd=(): [t('p'), t('gen', task_dep=['p'], targets=list(tg)), t('use', file_dep=list(fd)), t('z')]
    rows = [
        # (tasks, selection, default_tasks, --single)
        (sp(['./out/gen.txt']), ['./out/gen.txt'], None, False),                       # by exactly the declared string
        (sp(['./out/gen.txt']), ['out/gen.txt'], None, False),                         # normal form of it: another name
        (sp(['out//gen.txt']), ['z', 'out//gen.txt'], None, False),
        (sp(['out//gen.txt']), ['out/gen.txt', 'z'], None, False),
        (sp(['a/../gen.txt']), ['a/../gen.txt'], None, True),
        (sp(['a/../gen.txt']), ['gen.txt'], None, False),
        (sp(['/w/./out/gen.txt']), ['/w/./out/gen.txt', 'z'], None, False),            # absolute
        (sp(['/w/out/gen.txt']), ['/w//out/gen.txt'], None, False),                    # declared in normal form, asked for otherwise
        (sp(['./out/gen.txt']), [], ['./out/gen.txt'], False),                         # through default_tasks
        (sp(['./out/gen.txt']), [], ['z', 'out/gen.txt'], False),
        (sp(['./out/gen.txt'], ['./out/gen.txt']), ['use'], None, False),              # file_dep in the declared spelling: implicit task_dep
        (sp(['./out/gen.txt'], ['out/gen.txt']), ['use'], None, False),                # .. in another spelling: none
        (sp(['out/gen.txt'], ['./out/gen.txt', 'out//gen.txt']), ['use', 'out/gen.txt'], None, False),
        (sp(['out/gen.txt', './out/gen.txt']), ['./out/gen.txt', 'out/gen.txt'], None, False),   # both strings declared by one task
        ([t('p', targets=['out/gen.txt']), t('gen', targets=['./out/gen.txt', 'out//gen.txt']), t('use', file_dep=['out//gen.txt', 'out/gen.txt'])],
         ['out//gen.txt', 'out/gen.txt', './out/gen.txt'], None, False),              # three strings, two producers
        (sp(['./out/gen.txt']), ['g*', './out/gen.txt', 'out/./gen.txt'], None, False),   # after a glob; the last one is unknown
    ]
    for tasks, sel, default, single in rows:
        out.append(dict(tasks=tasks, sel=sel, sel_none=False, default=default, single=single, auto=False, defect='none',
                        scripted='spelling', spell=True))
    return out


def oracle_spelling_a(case, obs1, info):
    """selection by target is by the declared string, from the input alone (no model) -> (what, shape) or None.
    Only elements that are certainly read as selection elements are judged: no earlier token names a task declaring
    pos_arg (its values), the token before is no option token (its value)."""
    if obs1[0] in (1, 4, 97, 98):      # load error / a task's option parser refused: nothing selected by anybody
        return None
    declared = {}
    for t_ in case['tasks']:
        for f in t_['targets']:
            if f in declared:
                return None            # common target: a load error is due
            declared[f] = t_['name']
    byn = {t_['name']: t_ for t_ in case['tasks']}
    eff = [] if case['sel_none'] else list(case['sel'])
    nf = info.get('not_found')
    if nf is not None and nf in declared and nf not in byn:
        return ('TaskControl.process(%r): InvalidCommand(not_found=%r), but %r is the target task %r declares (targets=%r): '
                'a target named exactly as declared selects its producer' % (eff, nf, nf, declared[nf], byn[declared[nf]]['targets']),
                'target-spelling')
    if obs1[0] != 0:
        return None
    delayed = any(t_['loader'] is not None for t_ in case['tasks'])
    for i, f in enumerate(eff):
        if f in byn or '*' in f or f.startswith('-'):
            continue
        if any(x in byn and byn[x].get('pos_arg') for x in eff[:i]) or (i and eff[i - 1].startswith('-')):
            continue
        if f in declared:
            if declared[f] not in info.get('selected', []):
                return ('TaskControl.process(%r) selected %r: the producer %r of the target %r is not among them'
                        % (eff, info.get('selected'), declared[f], f), 'target-spelling')
        elif not delayed and any(os.path.normpath(g) == os.path.normpath(f) for g in declared):
            same = [g for g in declared if os.path.normpath(g) == os.path.normpath(f)]
            return ('TaskControl.process(%r) selected %r: %r is no task and no declared target (only another spelling of %r): '
                    'it must be rejected with InvalidCommand' % (eff, info.get('selected'), f, same), 'target-spelling')
    return None


def oracle_a(case, obs1, info):
    """what process() may add to TaskControl.tasks, from the input alone (no model): sub-task placeholders named on the
    command line and `_regex_target_<f>:<k>` for k a delayed task of the loaded list.  -> (what, shape) or None"""
    orig = {t['name']: t for t in case['tasks']}
    eff = [] if case['sel_none'] else list(case['sel'])
    if obs1 == [98]:
        by_name_sub = any(f not in orig and f.split(':', 1)[0] in orig and orig[f.split(':', 1)[0]]['loader'] is not None for f in eff)
        return ('TaskControl(..).process(%r) raised %s: not one of InvalidCommand / CmdParseError / InvalidTask / InvalidDodoFile'
                % (eff, info.get('exc')), 'subtask-placeholder-regex-exception' if by_name_sub else 'selection-exception')
    for n in info.get('created', []):
        if n in eff and n.split(':', 1)[0] in orig and orig[n.split(':', 1)[0]]['loader'] is not None:
            continue
        ok = False
        for f in eff:
            pre = '_regex_target_%s:' % f
            if n.startswith(pre) and n[len(pre):] in orig and orig[n[len(pre):]]['loader'] is not None:
                ok = True
        if not ok:
            return ('process(%r) created the task %r: neither a sub-task name of the command line nor a regex placeholder '
                    'of a delayed task of the loaded task list' % (eff, n), 'subtask-placeholder-regex:process')
    return None


def build_tasks(case):
    from doit.task import Task, DelayedLoader
    out = []
    for t in case['tasks']:
        ld = None
        if t['loader'] is not None:
            ld = DelayedLoader(lambda: [], executed=t['loader']['executed'], target_regex=t['loader']['regex'])
        T = Task(t['name'], None, file_dep=t['file_dep'], targets=t['targets'], task_dep=t['task_dep'],
                 calc_dep=t['calc_dep'], setup=t['setup'], subtask_of=t['subtask_of'], has_subtask=t['has_subtask'], loader=ld,
                 pos_arg=t.get('pos_arg'), params=[dict(p_) for p_ in t.get('params', [])])
        T.task_dep.extend(t['post_dep'])
        out.append(T)
    return out


def model_defs(case, task_list, I, sfx):
    """Coq text: the task table read off the real Task objects before TaskControl touches them, and the
    string oracles tabulated over every string of the case"""
    rows = []
    for T in task_list:
        I(T.name)
    for T in task_list:
        ld = 'None'
        if T.loader:
            ld = '(Some (Build_loader %s %s))' % (opt(T.loader.task_dep, lambda s: str(I(s))), opt(T.loader.target_regex, lambda s: str(I('re:' + s))))
        opts = []
        for prm in list(T.params) + list(T.creator_params):
            takes = 'false' if prm.get('type', str) is bool else 'true'
            if prm.get('short'):
                opts.append('(%d, %s)' % (I('-' + prm['short']), takes))
            if prm.get('long'):
                opts.append('(%d, %s)' % (I('--' + prm['long']), takes))
        rows.append('(%d, Build_stask %s %s %s %s %s %s %s %s %s %s %s)' % (
            I(T.name), nl(I(x) for x in T.task_dep), nl(I(x) for x in T.wild_dep), nl(I(x) for x in T.setup_tasks),
            nl(I(x) for x in list(T.calc_dep)), nl(I(x) for x in list(T.file_dep)), nl(I(x) for x in T.targets),
            'true' if T.has_subtask else 'false', opt(T.subtask_of, lambda s: str(I(s))), ld,
            'false' if T.pos_arg is None else 'true', nl(opts)))
    sel_strings = list(case['sel']) + list(case['default'] or [])
    for s in sel_strings:
        I(s)
    tnames = [T.name for T in task_list]
    regexes = sorted({T.loader.target_regex for T in task_list if T.loader and T.loader.target_regex})
    plain = [s for s in I.strs if not s.startswith('re:')]
    for s in list(plain):
        I(s.split(':', 1)[0])
    plain = [s for s in I.strs if not s.startswith('re:')]
    # names of the regex placeholders that can be created: filter string x (delayed task | earlier placeholder)
    ldnames = [T.name for T in task_list if T.loader]
    rn = {}
    if ldnames:
        for f in sel_strings:
            if '*' in f:
                continue
            for t in ldnames + [s for s in sel_strings if '*' not in s]:
                rn.setdefault(I(f), {})[I(t)] = I('_regex_target_%s:%s' % (f, t))
    plain = [s for s in I.strs if not s.startswith('re:')]
    for s in list(plain):
        I(s.split(':', 1)[0])
    plain = [s for s in I.strs if not s.startswith('re:')]
    pats = [s for s in plain if '*' in s]
    mt = {I(p): {I(n): 'true' for n in tnames if fnmatch.fnmatch(n, p)} for p in pats}
    rm = {I('re:' + rx): {I(s): 'true' for s in plain if re.match(rx, s)} for rx in regexes}
    defs = [
        'Definition tb%s : table := [%s].' % (sfx, '; '.join(rows)),
        fun1('hs' + sfx, 'bool', {I(s): 'true' for s in pats}, 'false'),
        fun2('mt' + sfx, 'bool', mt, 'false'),
        fun1('bn' + sfx, 'name', {I(s): str(I(s.split(':', 1)[0])) for s in plain if ':' in s}, 's'),
        fun2('rm' + sfx, 'bool', rm, 'false'),
        fun2('rn' + sfx, 'name', rn, '9999'),
        fun1('ir' + sfx, 'bool', {I(s): 'true' for s in plain if s.startswith('_regex_target')}, 'false'),
        fun1('io' + sfx, 'bool', {I(s): 'true' for s in plain if s.startswith('-')}, 'false'),
    ]
    return '\n'.join(defs)


def enc_control(tasks, targets, selected, I):
    z = [0] + [I(s) for s in selected] + [-1]
    for nm, T in tasks.items():
        z += [I(nm)] + [I(d) for d in T.task_dep] + [-1]
    z.append(-2)
    for f, p in targets.items():
        z += [I(f), I(p)]
    return z


def enc_exception(e, I):
    from doit.exceptions import InvalidDodoFile, InvalidTask, InvalidCommand
    from doit.cmdparse import CmdParseError
    msg = str(e)
    if isinstance(e, CmdParseError):
        return [4]
    if isinstance(e, InvalidCommand):
        return [2, I(e.not_found)] if e.not_found is not None else [97]
    if isinstance(e, InvalidDodoFile):
        m = re.match(r'Task names must be unique\. (.*)$', msg, re.S)
        return [1, 0, I(m.group(1)), 0, 0] if m else [97]
    if isinstance(e, InvalidTask):
        m = re.match(r"(.*)\. Task dependency '(.*)' does not exist\.$", msg, re.S)
        if m:
            return [1, 1, I(m.group(1)), I(m.group(2)), 0]
        m = re.match(r"Task '(.*)': invalid setup task '(.*)'\.$", msg, re.S)
        if m:
            return [1, 2, I(m.group(1)), I(m.group(2)), 0]
        m = re.match(r"(.*)\. Calc dependency '(.*)' does not exist\.$", msg, re.S)
        if m:
            return [1, 3, I(m.group(1)), I(m.group(2)), 0]
        m = re.match(r"Two different tasks can't have a common target\.'(.*)' is a target for (.*) and (.*)\.$", msg, re.S)
        if m:
            return [1, 4, I(m.group(1)), I(m.group(2)), I(m.group(3))]
    return [97]


def run_a1(case, I, info=None):
    from doit.control import TaskControl
    from doit.exceptions import InvalidDodoFile, InvalidTask, InvalidCommand
    from doit.cmdparse import CmdParseError
    sel = None if case['sel_none'] else list(case['sel'])
    info = {} if info is None else info
    try:
        tc = TaskControl(build_tasks(case), auto_delayed_regex=case['auto'])
        before = list(tc.tasks)
        tc.process(sel)
        info['created'] = [n for n in tc.tasks if n not in before]
        info['selected'] = list(tc.selected_tasks)
        return enc_control(tc.tasks, tc.targets, tc.selected_tasks, I)
    except (InvalidDodoFile, InvalidTask, InvalidCommand, CmdParseError) as e:
        if isinstance(e, InvalidCommand):
            info['not_found'] = e.not_found
        return enc_exception(e, I)
    except BaseException as e:   # noqa
        info['exc'] = '%s: %s' % (type(e).__name__, e)
        return [98]


class StubRunner:
    """stands in for doit.runner.Runner: keeps what the run would have been started with"""
    seen = []

    def __init__(self, *a, **k):
        pass

    def run_all(self, dispatcher):
        StubRunner.seen.append(dispatcher)
        return 0


def run_a2(ctx, case, I, idx):
    import doit.cmd_run as CR
    from doit.doit_cmd import DoitMain
    from doit.cmd_base import TaskLoader2

    class L(TaskLoader2):
        def setup(self, opt_values):
            pass

        def load_doit_config(self):
            cfg = {'dep_file': os.path.join(ctx.subdir('a2'), 'db%d' % (idx % 7)), 'backend': 'json'}
            if case['default'] is not None:
                cfg['default_tasks'] = list(case['default'])
            return cfg

        def load_tasks(self, cmd, pos_args):
            return build_tasks(case)
    argv = ['run'] + (['-s'] if case['single'] else []) + (['--auto-delayed-regex'] if case['auto'] else []) + list(case['sel'])
    StubRunner.seen = []
    orig = CR.Runner
    CR.Runner = StubRunner
    try:
        with Quiet(ctx.subdir('a2')) as q:
            try:
                rc = DoitMain(L(), config_filenames=()).run(argv)
            except BaseException as e:   # noqa
                return [98]
        if 'Traceback' in q.err.getvalue():
            return [97]
        if rc == 3 and not StubRunner.seen:
            return [3]
        if rc == 0 and len(StubRunner.seen) == 1:
            d = StubRunner.seen[0]
            return enc_control(d.tasks, d.targets, d.selected_tasks, I)
        return [96, rc]
    finally:
        CR.Runner = orig


def part_a(ctx, out):
    rng = ctx.rng
    cases = []

    def inputs():
        for i, c in enumerate(scripted_a()):
            yield 900000 + i, c
        for ci in range(ctx.n(260, 3000)):
            yield ci, gen_a(rng)
    for ci, case in inputs():
        I = Intern()
        try:
            task_list = build_tasks(case)
        except Exception as e:   # a generator slip, not an observation
            out.count('A:unbuildable')
            continue
        sfx = str(ci)
        defs = model_defs(case, task_list, I, sfx)
        orac = 'hs%s mt%s bn%s rm%s rn%s ir%s io%s' % ((sfx,) * 7)
        b = lambda x: 'true' if x else 'false'
        info = {}
        obs1 = run_a1(case, I, info)
        obs2 = run_a2(ctx, case, I, ci)
        bad = oracle_a(case, obs1, info)
        if bad:
            out.violations.append(dict(what=bad[0], shape=bad[1], case=dict(part='A', tasks=case['tasks'], sel=case['sel'], sel_none=case['sel_none'],
                                                                                auto=case['auto'], observed=dict(created=info.get('created'), exc=info.get('exc')))))
        bad = oracle_spelling_a(case, obs1, info)
        if bad:
            out.violations.append(dict(what=bad[0], shape=bad[1], case=dict(part='A', tasks=case['tasks'], sel=case['sel'], sel_none=case['sel_none'],
                                                                                auto=case['auto'], observed=dict(selected=info.get('selected'), not_found=info.get('not_found')))))
        if case.get('spell'):
            declared = [f for t_ in case['tasks'] for f in t_['targets']]
            effs = [] if case['sel_none'] else (case['sel'] or case['default'] or [])
            odd = [f for f in declared if os.path.normpath(f) != f]
            out.count('A:spellings')
            if any(f in odd for f in effs):
                out.count('A:spellings:selected-by-declared-non-normal-target')
            if any(f not in declared and any(os.path.normpath(f) == os.path.normpath(g) for g in declared) for f in effs):
                out.count('A:spellings:selected-by-another-spelling-of-a-target')
            if any(f != g and os.path.normpath(f) == os.path.normpath(g) for f in declared for g in declared):
                out.count('A:spellings:two-targets-same-path')
            if any(f not in declared and any(os.path.normpath(f) == os.path.normpath(g) for g in declared) for t_ in case['tasks'] for f in t_['file_dep']):
                out.count('A:spellings:file_dep-another-spelling-of-a-target')
            if any(f in odd for t_ in case['tasks'] for f in t_['file_dep']):
                out.count('A:spellings:file_dep-on-declared-non-normal-target')
        if case.get('scripted') == 'spelling':
            out.count('A:scripted-target-spelling')
        elif case.get('scripted'):
            out.count('A:scripted-subtask-placeholder+regex')
        elif len(info.get('created', [])) >= 2 and any(n.startswith('_regex_target') for n in info['created']) \
                and any(not n.startswith('_regex_target') for n in info['created']):
            out.count('A:random-subtask-placeholder+regex')
        selz = 'None' if case['sel_none'] else '(Some %s)' % nl(I(s) for s in case['sel'])
        m1 = 'enc_result (select_core %s %s false %s tb%s)' % (orac, b(case['auto']), selz, sfx)
        dflt = 'None' if case['default'] is None else '(Some %s)' % nl(I(s) for s in case['default'])
        m2 = 'enc_cmd (cmd_run_select %s %s %s %s %s tb%s)' % (orac, b(case['auto']), b(case['single']), nl(I(s) for s in case['sel']), dflt, sfx)
        # all strings were interned before the definitions were rendered?  (placeholders are pre-computed)
        cases.append(dict(defs=defs, model=m1, expected=obs1, desc=('A1', ci), case=case))
        cases.append(dict(model=m2, expected=obs2, desc=('A2', ci), case=case))
        kind = {0: 'selected', 1: 'load-error', 2: 'not-found', 4: 'option-parse-error'}.get(obs1[0], 'other')
        out.count('A1:' + kind)
        out.count('A2:' + ({0: 'selected', 3: 'exit3'}.get(obs2[0], 'other')) + (':single' if case['single'] else '')
                  + (':default' if (not case['sel'] and case['default'] is not None) else ''))
        if any(t['loader'] for t in case['tasks']):
            out.count('A:with-delayed-creator')
        eff = (case['sel'] or case['default'] or []) if not case['sel_none'] else case['sel']
        byn = {t['name']: t for t in case['tasks']}
        if any('*' in f for f in eff[:-1]):
            out.count('A:elements-after-glob')
            if any('*' in f and any(byn[n].get('pos_arg') or byn[n].get('params') for n in byn if fnmatch.fnmatch(n, f)) for f in eff[:-1]):
                out.count('A:elements-after-glob-matching-pos_arg/params-task')
        if any(f in byn and byn[f].get('pos_arg') for f in eff[:-1]):
            out.count('A:elements-after-pos_arg-task')
        if any(f.startswith('-') for f in eff):
            out.count('A:option-tokens')
        if len(case['tasks']) >= 3 and (case['sel'] or case['default']):
            out.nontrivial.add(('A', ci, tuple(obs1), tuple(obs2)))
        if ci < 2:
            out.samples.append(dict(part='A', tasks=[(t['name'], t['task_dep'] + t['post_dep'], t['file_dep'], t['targets']) for t in case['tasks']],
                                    selection=case['sel'], default_tasks=case['default'], single=case['single'],
                                    observed_TaskControl=obs1, observed_cmd_run=obs2, strings=I.strs))
    return cases


# ---------------------------------------------------------------------------------------------
# Part B: complete runs of generated dodo modules against an oracle computed from the definitions
class RecReporter:
    """recording reporter (DOIT_CONFIG['reporter'] accepts a class)"""
    log = None

    def __init__(self, outstream, options):
        pass

    def initialize(self, tasks, selected_tasks): pass
    def get_status(self, task): RecReporter.log.append(('status', task.name))
    def execute_task(self, task): RecReporter.log.append(('execute', task.name))
    def add_failure(self, task, fail): RecReporter.log.append(('fail', task.name))
    def add_success(self, task): RecReporter.log.append(('success', task.name))
    def skip_uptodate(self, task): RecReporter.log.append(('uptodate', task.name))
    def skip_ignore(self, task): RecReporter.log.append(('ignore', task.name))
    def cleanup_error(self, exception): pass
    def runtime_error(self, msg): RecReporter.log.append(('runtime_error', str(msg)))
    def teardown_task(self, task): pass
    def complete_run(self): pass


def spell_b(rng, d, base, plain=0.5):
    """a string naming the file <d>/<base>; runs have d as cwd and d/sub exists.  plain = how often the normal absolute path"""
    if rng.random() < plain:
        return os.path.join(d, base)
    return rng.choice([base, './' + base, 'sub/../' + base, './/' + base, d + '//' + base, d + '/./' + base,
                       os.path.join(d, 'sub', '..', base)])


def same_file_b(d, f, g):
    return os.path.normpath(os.path.join(d, f)) == os.path.normpath(os.path.join(d, g))


def respell_b(rng, d, f):
    """another string for the file f names"""
    base = os.path.relpath(os.path.normpath(os.path.join(d, f)), d)
    for _ in range(20):
        g = spell_b(rng, d, base, plain=0.3)
        if g != f:
            return g
    return './' + base


def gen_b(rng, d):
    """definitions as plain data.  Dependencies point to tasks defined later (no cycles; C09 is about those)."""
    n_plain = rng.randrange(2, 7)
    blocks = []   # ('plain', name) | ('group', name, [subs]) | ('delayed', name, [subs])
    for i in range(n_plain):
        blocks.append(['plain', 't%d' % i, []])
    for g in rng.sample(['g', 'h', 'k'], rng.choice([0, 1, 1, 2])):
        blocks.insert(rng.randrange(0, len(blocks) + 1), ['group', g, rng.sample(['x', 'y', 'z', '1'], rng.randrange(1, 4))])
    delayed = rng.random() < 0.3
    if delayed:
        blocks.insert(rng.randrange(0, len(blocks) + 1), ['delayed', 'd', rng.sample(['1', '2', '3'], rng.randrange(1, 3))])
    order = []     # static definition order
    for kind, nm, subs in blocks:
        order.append(nm)
        if kind == 'group':
            order += ['%s:%s' % (nm, s) for s in subs]
    pos = {nm: i for i, nm in enumerate(order)}
    defs = {}
    file_no = [0]

    def later(nm):
        base = nm.split(':')[0]
        return [x for x in order if pos[x] > pos.get(nm, pos.get(base, 0)) and x.split(':')[0] != base]
    producers = {}

    def mk(nm, kind, is_delayed_sub=False):
        cands = later(nm)
        t = dict(kind=kind, task_dep=[], setup=[], file_dep=[], targets=[], actions=(kind in ('plain', 'sub', 'dsub')),
                 pos_arg=False, params=[])
        if kind in ('group', 'delayed'):
            return t
        if not is_delayed_sub:
            t['pos_arg'] = rng.random() < 0.15
            if rng.random() < 0.2:
                t['params'] = rng.sample(['flag', 'val'], rng.choice([1, 2]))
        for _ in range(rng.choice([0, 0, 1, 1, 2])):
            if cands:
                t['task_dep'].append(rng.choice(cands))
        if cands and rng.random() < 0.18:
            t['setup'] = [rng.choice(cands)]
        if not is_delayed_sub and rng.random() < 0.5:
            f = spell_b(rng, d, 'out%d.txt' % file_no[0]); file_no[0] += 1
            t['targets'] = [f]
            producers[f] = nm
        return t
    for kind, nm, subs in blocks:
        if kind == 'plain':
            defs[nm] = mk(nm, 'plain')
        elif kind == 'group':
            defs[nm] = mk(nm, 'group')
            defs[nm]['subs'] = ['%s:%s' % (nm, s) for s in subs]
            for s in defs[nm]['subs']:
                defs[s] = mk(s, 'sub')
            if rng.random() < 0.12:   # {'name': None, 'task_dep': [...]}: a dependency of the group itself
                c = later(nm)
                if c:
                    defs[nm]['task_dep'] = [rng.choice(c)]
    # wild-card task_dep and file_dep on targets of later tasks
    for nm in order:
        t = defs.get(nm, dict(kind='delayed'))
        if t['kind'] in ('plain', 'sub'):
            if rng.random() < 0.2:
                pats = [p for p in ['g:*', 'h:*', 'k:*', 't*', '*:x', 'zz*', 't[45]*', '*'] if set(fnmatch.filter(order, p)) <= set(later(nm))]
                if pats:
                    t['task_dep'].append(rng.choice(pats))
            for f, p in producers.items():
                if p in later(nm) and rng.random() < 0.25:
                    # in the declared spelling: implicit task_dep on the producer; in another one: none
                    t['file_dep'].append(f if rng.random() < 0.7 else respell_b(rng, d, f))
            if rng.random() < 0.15:
                f = os.path.join(d, 'src%d.txt' % file_no[0]); file_no[0] += 1
                t['file_dep'].append(f)
    dsubs = {}
    if delayed:
        ex = rng.choice([None] + later('d'))
        defs['d'] = dict(kind='delayed', task_dep=[], setup=[], file_dep=[], targets=[], actions=False, executed=ex,
                         regex=None, subs=[], pos_arg=False, params=[])
        for kind, nm, subs in blocks:
            if kind == 'delayed':
                for s in subs:
                    full = 'd:%s' % s
                    dsubs[full] = mk(full, 'dsub', True)
                    defs['d']['subs'].append(full)
        if rng.random() < 0.35 and dsubs:
            full = rng.choice(sorted(dsubs))
            f = os.path.join(d, 'gen_%s.o' % full.split(':')[1])
            dsubs[full]['targets'] = [f]
            defs['d']['regex'] = re.escape(d) + r'/gen_.*\.o'
    default = None
    if rng.random() < 0.4:
        default = rng.sample(order, rng.randrange(1, min(3, len(order)) + 1))
        if producers and rng.random() < 0.3:   # a target, by the declared string
            default.insert(rng.randrange(0, len(default) + 1), rng.choice(sorted(producers)))
    return dict(dir=d, blocks=blocks, order=order, defs=defs, dsubs=dsubs, default=default)


PARAM_SRC = {'flag': "{'name': 'flag', 'short': 'f', 'type': bool, 'default': False}",
             'val': "{'name': 'val', 'short': 'v', 'type': str, 'default': ''}"}
PARAM_TOK = {'flag': ('-f', False), 'val': ('-v', True)}


def split_selection(spec, sel):
    """the documented reading of a command line, from the definitions alone: a pattern is one element and
    what follows it are further elements; after a task named for the first time come its options, and if it
    declares pos_arg everything after them are its positional values.
    Returns dict(elems=[...], pos={task: [values]}) | dict(error='option') | dict(ambiguous=True)"""
    defs, order = spec['defs'], spec['order']
    elems, pos, seen, i = [], {}, set(), 0
    while i < len(sel):
        f = sel[i]; i += 1
        elems.append(f)
        if '*' in f:
            seen |= set(fnmatch.filter(order, f))
            continue
        if f not in defs:
            continue
        t = defs[f]
        if f in seen:
            if t.get('pos_arg') or (i < len(sel) and sel[i].startswith('-')):
                return dict(ambiguous=True)    # arguments for a task mentioned before: not generated
            continue
        seen.add(f)
        toks = dict(PARAM_TOK[x] for x in t.get('params', []))
        while i < len(sel) and sel[i].startswith('-'):
            if sel[i] not in toks:
                return dict(error='option')
            i += 2 if toks[sel[i]] else 1
            if i > len(sel):
                return dict(error='option')
        if t.get('pos_arg'):
            pos[f] = list(sel[i:]); i = len(sel)
    return dict(elems=elems, pos=pos)


def render_b(spec):
    """the dodo module as source text"""
    L = ['from doit import create_after', '']

    def fields(nm, t):
        parts = []
        if t['actions'] and t.get('pos_arg'):
            parts.append("'actions': [RECP(%r)], 'pos_arg': 'files'" % nm)
        elif t['actions']:
            parts.append("'actions': [(REC, [%r])]" % nm)
        else:
            parts.append("'actions': None")
        for k in ('task_dep', 'setup', 'file_dep', 'targets'):
            if t[k]:
                parts.append('%r: %r' % (k, t[k]))
        if t.get('params'):
            parts.append("'params': [%s]" % ', '.join(PARAM_SRC[x] for x in t['params']))
        return ', '.join(parts)
    for kind, nm, subs in spec['blocks']:
        t = spec['defs'][nm]
        if kind == 'plain':
            L += ['def task_%s():' % nm, '    return {%s}' % fields(nm, t), '']
        elif kind == 'group':
            L += ['def task_%s():' % nm]
            if t['task_dep']:
                L += ["    yield {'name': None, 'task_dep': %r}" % t['task_dep']]
            for s in t['subs']:
                L += ["    yield {'name': %r, %s}" % (s.split(':', 1)[1], fields(s, spec['defs'][s]))]
            L += ['']
        else:
            args = []
            if t['executed']:
                args.append('executed=%r' % t['executed'])
            if t['regex']:
                args.append('target_regex=%r' % t['regex'])
            L += ['@create_after(%s)' % ', '.join(args), 'def task_%s():' % nm, "    CREATED.append('d')"]
            for s in t['subs']:
                L += ["    yield {'name': %r, %s}" % (s.split(':', 1)[1], fields(s, spec['dsubs'][s]))]
            L += ['']
    return '\n'.join(L)


def regex_candidate(spec, f, auto):
    """f is no task and no target of the static definitions, no `d:..` name, and the creator d is asked for it:
    its target_regex matches, or it has none and --auto-delayed-regex is given"""
    defs = spec['defs']
    if 'd' not in defs or defs['d']['kind'] != 'delayed' or '*' in f or f in defs or f.split(':', 1)[0] in defs:
        return False
    if any(f in t['targets'] for t in defs.values()):
        return False
    rx = defs['d']['regex']
    return bool(re.match(rx, f)) if rx else bool(auto)


def oracle_b(spec, sel, single, auto=False):
    """expected (rc, processed set, resolved selection) from the definitions alone.
    rc 3 = a name that is no task, no target, no sub-task/target a delayed creator provides (late=True: only the
    creator can tell, the name is rejected once the creator ran; what was selected before it may have run)."""
    order, defs, dsubs = spec['order'], spec['defs'], spec['dsubs']
    producers = {f: nm for nm, t in list(defs.items()) for f in t['targets']}
    dprod = {f: nm for nm, t in dsubs.items() for f in t['targets']}
    alld = dict(defs); alld.update(dsubs)

    def deps(nm, with_task_dep=True):
        t = alld[nm]
        out = []
        if with_task_dep:
            for x in t['task_dep']:
                out += fnmatch.filter(order, x) if '*' in x else [x]
            out += t.get('subs', [])
            if t['kind'] in ('delayed', 'dsub') and defs['d']['executed']:
                out.append(defs['d']['executed'])     # the creator runs after its `executed` task
            for f in t['file_dep']:
                if f in producers:
                    out.append(producers[f])
        out += t['setup']
        return out

    def closure(roots, acc, cleared=()):
        """cleared: tasks named under --single; their task_dep are ignored wherever they are reached from"""
        todo = list(roots)
        while todo:
            x = todo.pop()
            if x in acc:
                continue
            acc.add(x)
            todo += deps(x, with_task_dep=(x not in cleared))
        return acc
    pos = {}
    if sel is None:
        resolved = list(order)
    else:
        sp = split_selection(spec, sel)
        if 'error' in sp:
            return dict(rc=3, unknown='<task option>', delayed=False)
        pos = sp['pos']
        resolved = []
        for f in sp['elems']:
            if '*' in f:
                resolved += fnmatch.filter(order, f)
            elif f in defs:
                resolved.append(f)
            elif f in producers:
                resolved.append(producers[f])
            elif f in dsubs:
                resolved.append(f)
            elif f in dprod and regex_candidate(spec, f, auto):
                resolved.append(dprod[f])
            elif regex_candidate(spec, f, auto):
                others = [x for x in sp['elems'] if x != f]
                before = oracle_b(spec, others, single, auto) if others else dict(rc=0, processed=set())
                return dict(rc=3, unknown=f, delayed=False, late=True, may_run=before['processed'] if before['rc'] == 0 else None)
            else:
                return dict(rc=3, unknown=f, delayed=(f.split(':', 1)[0] in defs and defs[f.split(':', 1)[0]]['kind'] == 'delayed'))
    acc = set()
    if single:
        # the named tasks without their task dependencies; a group stands for its members
        members = set()
        for s in resolved:
            members |= set([s] + alld[s].get('subs', []))
        closure(sorted(members), acc, cleared=members)
    else:
        closure(resolved, acc)
    return dict(rc=0, pos=pos, processed=acc, resolved=resolved, alld=alld, deps=deps, closure=closure)


def input_shape(spec, sel, single):
    """stable id of the input shape of a Part B case (from the input only, never from what was observed).
    'repeated-name-drops-rest', 'single-drops-rest' (repaired by 3703f81) and 'single-group-with-task-dep'
    (repaired by d52f0d3) are kept so that a regression is reported under the same id; the two
    '...delayed...' shapes are recorded in KNOWN_FINDINGS.json."""
    defs, dsubs, order = spec['defs'], spec['dsubs'], spec['order']
    sel = sel or []
    seen, repeated = set(), False
    for i, f in enumerate(sel):
        if '*' in f:
            seen |= set(fnmatch.filter(order, f))
        elif f in defs:
            if f in seen and i + 1 < len(sel):
                repeated = True
            seen.add(f)
    names_delayed = any(f in dsubs or f.split(':', 1)[0] == 'd' or any(f in t['targets'] for t in dsubs.values()) for f in sel)
    if single and names_delayed:
        return 'single-delayed-keeps-task-dep'
    if single and any('*' not in f and f in defs for f in sel[:-1]):
        return 'single-drops-rest'
    if repeated:
        return 'repeated-name-drops-rest'
    if single and any(t['kind'] == 'group' and t['task_dep'] for t in defs.values()):
        return 'single-group-with-task-dep'
    for i, f in enumerate(sel[:-1]):
        if '*' in f and any(defs[n].get('pos_arg') or defs[n].get('params') for n in fnmatch.filter(order, f)):
            return 'elements-after-glob'      # a pattern matching a task that takes arguments, followed by more elements
    # spellings: an element that names the file of a declared target in non-normal form or in another spelling than the
    # declared one; a file_dep that does so
    d = spec['dir']
    declared = [g for t in list(defs.values()) + list(dsubs.values()) for g in t['targets']]
    odd = lambda f: any(same_file_b(d, f, g) and (f != g or os.path.normpath(g) != g) for g in declared)
    if any('*' not in f and f not in defs and odd(f) for f in sel):
        return 'target-spelling'
    if any(odd(f) for t in list(defs.values()) + list(dsubs.values()) for f in t['file_dep']):
        return 'target-spelling'
    return None


def run_b(ctx, spec, argv, idx):
    from doit.doit_cmd import DoitMain
    from doit.cmd_base import ModuleTaskLoader
    d = spec['dir']
    executed, created, posval = [], [], {}
    RecReporter.log = []

    def recp(nm):
        def act(files):
            executed.append(nm)
            posval[nm] = files
        return act
    ns = {'REC': lambda nm: (executed.append(nm) or True), 'RECP': recp, 'CREATED': created}
    src = render_b(spec)
    path = os.path.join(d, 'dodo_%d.py' % idx)
    with open(path, 'w') as fh:   # the loader orders task creators by inspect.getsourcelines
        fh.write(src)
    exec(compile(src, path, 'exec'), ns)
    cfg = {'dep_file': os.path.join(d, 'db_%d' % idx), 'backend': 'json', 'reporter': RecReporter, 'verbosity': 0}
    if spec['default'] is not None:
        cfg['default_tasks'] = list(spec['default'])
    ns['DOIT_CONFIG'] = cfg
    for sub in ('sub', 'out'):
        os.makedirs(os.path.join(d, sub), exist_ok=True)
    for t in list(spec['defs'].values()) + list(spec['dsubs'].values()):
        for f in t['file_dep'] + t['targets']:
            with open(os.path.join(d, f), 'w') as fh:     # relative names are relative to the cwd of the run
                fh.write('x')
    with Quiet(d) as q:
        try:
            rc = DoitMain(ModuleTaskLoader(ns), config_filenames=()).run(argv)
        except BaseException as e:   # noqa
            rc = 98
    return dict(rc=rc, log=list(RecReporter.log), executed=executed, created=created, posval=posval, stderr=q.err.getvalue()[-400:], src=src,
                traceback=('Traceback' in q.err.getvalue() or rc == 98))


def T(kind='plain', **kw):
    t = dict(kind=kind, task_dep=[], setup=[], file_dep=[], targets=[], actions=(kind in ('plain', 'sub', 'dsub')),
             pos_arg=False, params=[])
    t.update(kw)
    return t


def directed_b(d):
    """the minimal input of every shape worth pinning down, run in every tier: (label, spec, selection, single)"""
    def spec(blocks, defs, dsubs=None, default=None):
        order = []
        for kind, nm, subs in blocks:
            order.append(nm)
            if kind == 'group':
                order += ['%s:%s' % (nm, x) for x in subs]
        return dict(dir=d, blocks=blocks, order=order, defs=defs, dsubs=dsubs or {}, default=default)
    abc = lambda: spec([['plain', 'a', []], ['plain', 'b', []], ['plain', 'c', []]],
                       {'a': T(), 'b': T(), 'c': T(task_dep=['a'])})
    dly = lambda: spec([['plain', 'a', []], ['plain', 'b', []], ['delayed', 'd', ['1']]],
                       {'a': T(), 'b': T(), 'd': T('delayed', executed='a', regex=None, subs=['d:1'])},
                       {'d:1': T('dsub', task_dep=['b'])})
    grp = lambda: spec([['plain', 'a', []], ['group', 'g', ['x']], ['group', 'h', ['y']]],
                       {'a': T(), 'g': T('group', subs=['g:x'], task_dep=['h']), 'g:x': T('sub', task_dep=['a']),
                        'h': T('group', subs=['h:y']), 'h:y': T('sub', task_dep=['a'])})
    lint = lambda: spec([['plain', 'lint_files', []], ['plain', 'lint_docs', []], ['plain', 'build', []], ['plain', 'deploy', []]],
                        {'lint_files': T(pos_arg=True), 'lint_docs': T(), 'build': T(params=['flag', 'val']), 'deploy': T(task_dep=['build'])})
    g1, g2, g9 = (os.path.join(d, 'gen_%s.o' % x) for x in '129')
    rx = re.escape(d) + r'/gen_.*\.o'
    dlr = lambda regex: spec([['plain', 'a', []], ['plain', 'b', []], ['delayed', 'd', ['1', '2']]],
                             {'a': T(), 'b': T(), 'd': T('delayed', executed=None, regex=regex, subs=['d:1', 'd:2'])},
                             {'d:1': T('dsub', targets=[g1]), 'd:2': T('dsub', task_dep=['b'], targets=[g2])})
    # spellings of one path: gen declares its target as `tg`; use has file_dep `fd`
    spl = lambda tg, fd=(), default=None: spec([['plain', 'p', []], ['plain', 'gen', []], ['plain', 'use', []], ['plain', 'z', []]],
                                               {'p': T(), 'gen': T(task_dep=['p'], targets=[tg]), 'use': T(file_dep=list(fd)), 'z': T()},
                                               default=default)
    spelled = [
        ('target-declared-dot-slash', spl('./out/gen.txt'), ['./out/gen.txt'], False),
        ('target-normal-form-of-declared', spl('./out/gen.txt'), ['out/gen.txt'], False),
        ('target-declared-double-slash', spl('out//gen.txt'), ['z', 'out//gen.txt'], False),
        ('target-declared-dotdot', spl('sub/../gen.txt'), ['sub/../gen.txt'], True),
        ('target-declared-absolute-non-normal', spl(d + '/./out/gen.txt'), [d + '/./out/gen.txt', 'z'], False),
        ('target-declared-absolute-asked-relative', spl(os.path.join(d, 'out/gen.txt')), ['out/gen.txt'], False),
        ('target-declared-spelling-default_tasks', spl('./out/gen.txt', default=['./out/gen.txt']), [], False),
        ('target-other-spelling-default_tasks', spl('./out/gen.txt', default=['z', 'out/gen.txt']), [], False),
        ('file_dep-declared-spelling', spl('./out/gen.txt', ['./out/gen.txt']), ['use'], False),
        ('file_dep-other-spelling', spl('./out/gen.txt', ['out/gen.txt']), ['use'], False),
    ]
    return spelled + [
        # (label, spec, selection, single, --auto-delayed-regex)
        ('subtask+regex-target', dlr(rx), ['d:1', g2], False, False),
        ('subtask+regex-target-auto', dlr(None), ['d:1', g2], False, True),
        ('subtask+own-target-auto', dlr(None), ['d:1', g1], False, True),
        ('regex-target+subtask', dlr(rx), [g2, 'd:1', 'a'], False, False),
        ('subtask+unknown-regex-target', dlr(rx), ['d:1', g9], False, False),
        ('subtask+unknown-target-auto', dlr(None), ['a', 'd:1', os.path.join(d, 'other.txt')], False, True),
        ('regex-target-alone-auto', dlr(None), [g2], False, True),
        ('unknown-target-alone-auto', dlr(None), [os.path.join(d, 'other.txt')], False, True),
        ('glob-then-names', lint(), ['lint_*', 'deploy'], False),
        ('glob-then-unknown', lint(), ['lint_*', 'deploy', 'nosuch'], False),
        ('glob-then-option-token', lint(), ['b*', '-f', 'deploy'], False),
        ('pos-arg-values', lint(), ['lint_docs', 'lint_files', 'a.py', 'deploy'], False),
        ('task-options-then-names', lint(), ['build', '-f', '-v', 'x', 'lint_docs'], False),
        ('task-unknown-option', lint(), ['build', '-z', 'lint_docs'], False),
        ('names-in-order', abc(), ['b', 'c'], False),
        ('unknown-name', abc(), ['a', 'zz'], False),
        ('single-one-task', abc(), ['c'], True),
        ('single-two-tasks', abc(), ['c', 'b'], True),
        ('repeated-then-unknown', abc(), ['b', 'b', 'c', 'zz'], False),
        ('delayed-existing-subtask', dly(), ['d:1'], False),
        ('delayed-missing-subtask', dly(), ['d:7'], False),
        ('single-delayed-subtask', dly(), ['d:1'], True),
        ('group', grp(), ['h'], False),
        ('single-group', grp(), ['h'], True),
        ('single-group-with-task-dep', grp(), ['g'], True),
    ]


def check_b(ctx, out, spec, sel, single, ci, label=None, auto=False, cli=None):
    """cli (Part C, harness/c12_cli.py): dict(argv=<the complete command line as typed>, shape=<shape id of every violation of
    this case>, runner=<function like run_b>, kind=<counter prefix>); then `sel` / `single` are what the documented reading of
    that command line gives (variables removed, the word `run` and the options of `doit run` stripped)"""
    d = spec['dir']
    order, defs, dsubs = spec['order'], spec['defs'], spec['dsubs']
    argv = ['run'] + (['--single'] if single else []) + (['--auto-delayed-regex'] if auto else []) + sel
    if cli:
        argv = list(cli['argv'])
    eff = sel if sel else spec['default']
    exp = oracle_b(spec, eff, single, auto)
    res = (cli['runner'] if cli and cli.get('runner') else run_b)(ctx, spec, argv, ci)
    esc = repr(re.escape(d))[1:-1]      # the directory as it appears inside a rendered target_regex
    short = lambda s: s.replace(esc, '<dir>').replace(d, '<dir>')
    case = dict(dodo=short(res['src']), argv=[short(a) for a in argv],
                default_tasks=None if spec['default'] is None else [short(a) for a in spec['default']])
    status = [nm for ev, nm in res['log'] if ev == 'status']
    processed = set(nm for nm in status if not nm.startswith('_regex_target'))
    part = cli['kind'] if cli else 'B'
    out.count('%s:%s%s%s' % (part, 'exit3' if exp['rc'] == 3 else 'run', ':single' if single else '', ':delayed' if dsubs else ''))
    if label:
        out.count(part + ':directed')
    if not sel:
        out.count(part + ':no-positional:' + ('default_tasks' if spec['default'] is not None else 'all'))
    out.evaluations += 1
    ishape = input_shape(spec, eff, single)
    declared = [g for t in list(defs.values()) + list(dsubs.values()) for g in t['targets']]
    if any(f in declared and os.path.normpath(f) != f for f in (eff or [])):
        out.count('B:spellings:selected-by-declared-non-normal-target')
    if any(f not in declared and '*' not in f and any(same_file_b(d, f, g) for g in declared) for f in (eff or [])):
        out.count('B:spellings:selected-by-another-spelling-of-a-target')
    if any(f not in declared and any(same_file_b(d, f, g) for g in declared) for t in defs.values() for f in t['file_dep']):
        out.count('B:spellings:file_dep-another-spelling-of-a-target')

    def viol(what, shape, force=False):
        shape = shape if force else (ishape or shape)
        if cli:
            shape = cli['shape']
            what = '`doit %s`%s: %s' % (' '.join(repr(short(a)) for a in argv),
                                       '' if sel else ' (default_tasks %s)' % case['default_tasks'], what)
        out.violations.append(dict(what=what, shape=shape, case=dict(case, observed=dict(rc=res['rc'], started=status, executed=res['executed'],
                                                                                          stderr=short(res['stderr'])))))
    # input shape of the defect repaired by 01f48fb: a sub-task of the delayed creator by name + an element the creator's
    # target_regex / --auto-delayed-regex resolves.  The placeholder of the former is no task-creator: no task is ever
    # named <sub-task name>:<x>, and nothing but InvalidCommand (exit 3, no traceback) may come of an unknown target
    if 'd' in defs and defs['d']['kind'] == 'delayed' and any(f not in defs and f.split(':', 1)[0] == 'd' for f in (eff or [])) \
            and any(regex_candidate(spec, f, auto) for f in (eff or [])):
        out.count('B:subtask-placeholder+regex' + (':auto' if auto else ':target_regex') + (':unknown-target' if exp.get('late') else ''))
        odd = sorted(set(nm for nm in status + res['executed'] if nm.count(':') >= 2 and nm not in eff))
        if odd:
            return viol('`doit %s`: tasks named %s were started: the placeholder of the sub-task selected by name was taken for a '
                        'task-creator by the target regex matching' % (' '.join(short(a) for a in argv), odd), 'subtask-placeholder-regex', force=True)
        if res['traceback']:
            return viol('`doit %s`: an exception other than InvalidCommand escaped (traceback) after a sub-task placeholder was '
                        'matched by the target regexes' % ' '.join(short(a) for a in argv), 'subtask-placeholder-regex-traceback', force=True)
    # Part C: an unknown name must end in exit code 3 with nothing processed; which message is printed (a traceback through
    # the generic handler of DoitMain.run included) is not part of the property
    if res['traceback'] and not (cli and exp['rc'] == 3 and res['rc'] == 3):
        return viol('doit run crashed with a traceback during selection/run', 'run-crash')
    # selection by target is by the declared string: such an element is never the rejected one; another spelling of a
    # declared target (that nothing else accounts for) is
    cmdline = '`doit %s`%s' % (' '.join(short(a) for a in argv), '' if sel else ' with default_tasks %s' % case['default_tasks'])
    if exp['rc'] == 0 and res['rc'] == 3:
        for f in eff or []:
            if f in declared and f not in defs and ('invalid parameter: "%s"' % f) in res['stderr']:
                prod = [nm for nm, t in list(defs.items()) + list(dsubs.items()) if f in t['targets']]
                return viol('%s: %r is rejected (exit 3) although task %s declares exactly this string as its target'
                            % (cmdline, short(f), prod), 'target-spelling', force=True)
    if exp['rc'] == 3 and not exp.get('late') and not exp['delayed'] and res['rc'] != 3 and exp['unknown'] not in declared \
            and any(same_file_b(d, exp['unknown'], g) for g in declared):
        return viol('%s: %r is no task and no declared target (only another spelling of %s), yet it is accepted: exit code %s, started %s'
                    % (cmdline, short(exp['unknown']), [short(g) for g in declared if same_file_b(d, exp['unknown'], g)], res['rc'], status),
                    'target-spelling', force=True)
    if exp['rc'] == 3:
        out.nontrivial.add((part + '3', ci))
        if exp.get('late'):
            if res['rc'] != 3 or (exp['may_run'] is not None and not (processed <= exp['may_run'])):
                viol('target %r that the delayed creator is asked for but never creates: exit code %s (expected 3), started %s, '
                     'selected before it: %s' % (short(exp['unknown']), res['rc'], sorted(processed), sorted(exp['may_run'] or [])),
                     'unknown-delayed-target-not-rejected')
        elif exp['delayed']:
            # a name only the creator could have provided: known after the creator ran, never a task of its own
            if res['rc'] != 3 or exp['unknown'] in processed:
                viol('`doit run %s`: the delayed creator never creates this sub-task, yet the name is not rejected: exit code %s, '
                     'the placeholder ran as an empty task' % (short(exp['unknown']), res['rc']), 'delayed-subtask-never-created', force=True)
        elif res['rc'] != 3 or status or res['executed'] or res['created']:
            viol('unknown name %r: exit code %s (expected 3) and %d tasks processed before the error' % (short(exp['unknown']), res['rc'], len(status)),
                 'unknown-name-not-rejected')
        return
    want = exp['processed']
    if len(want) >= 3:
        out.nontrivial.add((part, ci, tuple(sorted(want)), tuple(status)))
    if res['rc'] != 0:
        return viol('selection is valid but doit run exited with %s' % res['rc'], 'valid-selection-rejected')
    if processed != want:
        extra, missing = sorted(processed - want), sorted(want - processed)
        return viol('processed tasks differ from the %s of the selection: unexpected %s, missing %s' % (
            'named tasks (--single)' if single else 'dependency closure', extra, missing), 'closure-single' if single else 'closure')
    acts = set(nm for nm in processed if exp['alld'][nm]['actions'])
    if set(res['executed']) != acts or len(res['executed']) != len(acts):
        return viol('executed actions %s differ from the tasks with actions in the closure %s' % (sorted(res['executed']), sorted(acts)), 'executed-set')
    for p_, vals in exp['pos'].items():
        got = res['posval'].get(p_)
        if got is None or list(got) != vals:
            return viol('task %s declares pos_arg and was named with the values %s, its action received %r' % (p_, vals, got), 'pos-arg-values')
    # order: a selected task listed earlier starts first unless the later one is needed by it or by one before it
    rs = []
    for s in exp['resolved']:
        if s not in rs:
            rs.append(s)
    first = {}
    for i, nm in enumerate(status):
        first.setdefault(nm, i)
    if not single:
        for i, a in enumerate(rs):
            for b in rs[i + 1:]:
                if a in first and b in first and first[b] < first[a]:
                    needed = exp['closure'](rs[:i + 1], set())
                    if b not in needed:
                        viol('selected %s is listed before %s and does not need it, but %s was started first' % (a, b, b), 'start-order')
    if label in ('names-in-order', 'delayed-existing-subtask') or (label is None and ci < 1001):
        if len(out.samples) < 6:
            out.samples.append(dict(part='B', argv=case['argv'], default_tasks=spec['default'], order=order,
                                    started=status, executed=res['executed'], expected_closure=sorted(want)))


def random_selection(rng, spec):
    d = spec['dir']
    order, defs, dsubs = spec['order'], spec['defs'], spec['dsubs']
    targets = [f for t in defs.values() for f in t['targets']]
    dtargets = [f for t in dsubs.values() for f in t['targets']]

    def element():
        r = rng.random()
        if r < 0.45:
            nm = rng.choice(order)
            toks = [nm]
            if defs[nm].get('params') and rng.random() < 0.6:
                for x in rng.sample(defs[nm]['params'], rng.randrange(1, len(defs[nm]['params']) + 1)):
                    toks += ['-f'] if x == 'flag' else ['-v', 'value']
            elif rng.random() < 0.04:
                toks.append('-z')
            return toks
        if r < 0.58 and targets:
            f = rng.choice(targets)               # by the declared string
            if rng.random() < 0.2:
                f = respell_b(rng, d, f)          # by another spelling of the same file: an unknown name
            return [f]
        if r < 0.76:
            pats = ['*', 'g:*', 't*', '*:x', 'zz*', 't[12]', 'h:*', 't[12]*', 'k*']
            if dsubs:   # a pattern must not depend on whether the delayed sub-tasks exist yet
                pats = [p for p in pats if not fnmatch.filter(list(dsubs), p)]
            return [rng.choice(pats)]
        if r < 0.88 and dsubs:
            return [rng.choice(sorted(dsubs)[:2] + (dtargets or ['d']) + ['d:7', 'd:7'])]
        return [rng.choice(['zz', 'g:zz', 't1:x', os.path.join(d, 'nofile.txt'), 't0 '])]
    for _ in range(8):
        sel = [x for _ in range(rng.choice([0, 1, 1, 2, 2, 3, 4])) for x in element()]
        if 'ambiguous' not in split_selection(spec, sel):
            return sel
    return []


def part_b(ctx, out):
    rng = ctx.rng
    d = ctx.subdir('b')
    for i, (label, spec, sel, single, *auto) in enumerate(directed_b(d)):
        check_b(ctx, out, spec, sel, single, 1000000 + i, label, auto=bool(auto and auto[0]))
    for ci in range(ctx.n(140, 1500)):
        spec = gen_b(rng, d)
        sel = random_selection(rng, spec)
        check_b(ctx, out, spec, sel, rng.random() < 0.3, ci)


def run(ctx):
    out = Outcome()
    out.rule = ('A: random task lists (plain, groups+sub-tasks, delayed creators, wild-card task_dep, implicit deps via targets, load errors) x '
                'random selections (names, globs, targets, unknown, delayed sub-task/regex) x default_tasks x --single x --auto-delayed-regex; '
                'non-trivial = >= 3 tasks and a non-empty selection or default, distinct by observed outcome.  '
                'B: generated dodo modules run for real; non-trivial = closure of >= 3 tasks, or a rejected selection.  ' + c12_cli.RULE
                + '.  ' + c12_single.RULE)
    cases = part_a(ctx, out)
    me = sys.modules[__name__]
    cases += c12_cli.part_c1(ctx, out, me)
    cases += c12_single.part_d1(ctx, out, me)
    out.evaluations += len(cases)
    part_b(ctx, out)
    c12_cli.part_c23(ctx, out, me)
    c12_single.part_d23(ctx, out, me)
    bad = common.compare_with_model(ctx, PRE, cases)
    out.traces_validated = len(cases)
    for i, m in bad:
        c = cases[i]
        out.mismatches.append(dict(case=dict(which=c['desc'], input=c['case']), impl=c['expected'], model=m))
    out.assumptions = ['string functions ("*" in s, fnmatch.fnmatch, split, re.match, str.format, startswith) are oracles tabulated by the harness',
                       'iteration order of the Python sets file_dep / calc_dep is an input (read off the real Task objects)',
                       'per-task arguments: which tokens are consumed (pos_arg, option tokens in exact spelling -c / --word, str values) is '
                       'modelled; the parsed VALUES, option clusters, --opt=value, "--" and "-" are not',
                       'C12_serial_order / C12_nothing_outside_closure_serial are proved over the dispatcher + serial runner model with a STATIC task table (Model/Dispatch.v, Runner.v; tied to the code by the correspondence checks of C01/C02/C09); on real runs (delayed creators included) the start order of the selected tasks and the closure are checked by the oracle of Part B',
                       'the run after a delayed creator executed (tasks replaced by the created ones) is covered by Part B only, not by the model',
                       'command line front (Model/Select.v Section Cli, Part C1): `name=value` test, == "run" and the spelling of the options of `doit run` '
                       'are oracles tabulated by the harness; domain: the only sub-command word is `run`, option-position tokens are -s / --single / '
                       '--auto-delayed-regex or unknown options, no "--", "-", --version, --help, no loader options (Part C3 passes -f through the real parser)']
    out.extra['trusted_base'] = ['rendering of real Task attributes into Model/Select.v tables and of exceptions into the error enum (harness/c12.py)',
                                 'the closure oracle of Part B (harness/c12.py oracle_b)',
                                 'the documented reading of a command line and the selection oracle of Part C (harness/c12_cli.py cli_reading, oracle_c1)',
                                 'the --single oracle of Part D (harness/c12_single.py expected_d1)']
    return out


def replay(ctx, payload):
    """re-run the dodo module and command line of a recorded Part B violation on the code under test"""
    case = payload.get('case', {})
    if case.get('part') == 'C1':
        return c12_cli.replay_c1(ctx, payload, sys.modules[__name__])
    if case.get('part') == 'D1':
        return c12_single.replay_d1(ctx, payload, sys.modules[__name__])
    if case.get('part') == 'A' and 'tasks' in case:
        info = {}
        obs = run_a1(dict(case, sel_none=case.get('sel_none', False)), Intern(), info)
        print('tasks    :', [(t['name'], t['loader']) for t in case['tasks']])
        print('process  :', None if case.get('sel_none') else case['sel'], ' auto_delayed_regex =', case['auto'])
        print('recorded :', payload.get('what'), case.get('observed'))
        print('targets  :', [(t['name'], t['targets'], t['file_dep']) for t in case['tasks'] if t['targets'] or t['file_dep']])
        print('now      : outcome kind %s, selected: %s, not_found: %r, tasks created by process(): %s %s'
              % (obs[:1], info.get('selected'), info.get('not_found'), info.get('created'), info.get('exc', '')))
        return 0
    if 'dodo' not in case:
        print(payload)
        return 0
    from doit.doit_cmd import DoitMain
    from doit.cmd_base import ModuleTaskLoader
    d = ctx.subdir('replay')
    src = case['dodo'].replace('<dir>', d)
    argv = [a.replace('<dir>', d) for a in case['argv']]
    path = os.path.join(d, 'dodo.py')
    with open(path, 'w') as fh:
        fh.write(src)
    executed = []
    RecReporter.log = []
    def recp(nm):
        def act(files):
            executed.append(nm + repr(files))
        return act
    ns = {'REC': lambda nm: (executed.append(nm) or True), 'RECP': recp, 'CREATED': []}
    exec(compile(src, path, 'exec'), ns)
    ns['DOIT_CONFIG'] = {'dep_file': os.path.join(d, 'db'), 'backend': 'json', 'reporter': RecReporter, 'verbosity': 0}
    if case.get('default_tasks') is not None:
        ns['DOIT_CONFIG']['default_tasks'] = [a.replace('<dir>', d) for a in case['default_tasks']]
    for sub in ('sub', 'out'):
        os.makedirs(os.path.join(d, sub), exist_ok=True)
    for f in set(re.findall(r"'([^'*\\]+\.(?:txt|o))'", src)):     # every file name of the module, whatever its spelling
        open(os.path.join(d, f), 'w').write('x')
    with Quiet(d) as q:
        rc = DoitMain(ModuleTaskLoader(ns), config_filenames=()).run(argv)
    print(src)
    print('argv:', argv)
    print('recorded :', payload.get('what'), case.get('observed'))
    print('now      : rc=%s started=%s executed=%s' % (rc, [n for e, n in RecReporter.log if e == 'status'], executed))
    return 0
