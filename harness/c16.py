"""C16 -- option parsing is exact, pure and respects source precedence.

Correspondence: the real doit.cmdparse.CmdParse / TaskParse / CmdOption / DefaultUpdate (and
Task.init_options) and Python's getopt.getopt are run on generated inputs; what they return is
compared with Model/CmdParse.v evaluated inside Coq (`scenario`, `getopt`).

Scenario of one case (one parser object):
    p = CmdParse([CmdOption(d) for d in spec]); p.overwrite_defaults(cfg)
    r1 = p.parse(argv); r2 = p.parse(argv)      # os.environ patched for the case only
    r1[0].update_defaults(dodo)
Encoding (list of ints, same on both sides -- Model/CmdParse.v `scenario`):
    outcome   0 ok | 3 CmdParseError | 98 any other exception
    string    len, char codes                    value  None [0] | bool [1,b] | int [2,z] | str 3,string | list 4,n,strings
    defaults  value of every option default, in parser order
    params    n, then per item in dict order: key number, 1 if key in _non_default_keys, value
    case      = outcome(overwrite_defaults), defaults, then (if ok) twice: outcome(parse), [params, n_args, args], defaults;
                then params of r1 after update_defaults(dodo)
Option names are 'o<k>' <-> k, environment variables 'C16V_<k>' <-> k.  Strings are printable ASCII.
Generated specs: bool/int/str/list/even x short/long/inverse/env_var, choices on str AND on list options
(repair 424a4bf: every item of a list is validated; a regression shows up under the shape ids
`list-choices-cmdline-unvalidated` / `list-choices-typeerror`).
`type`: bool, list, str concretely; int and the custom callable `even` through the oracle instance
`conv_ref` of the model (the harness checks on every string of every case that its Python mirror
agrees with the real int()).

Abbreviated long options (part abbrev): specs whose long names are prefixes of each other (AB_FAMILIES); every unit kind
of AB_KINDS (unique prefix / a full name that is a prefix of another name / ambiguous prefix; --p, --p=V, --p V; valued
option, flag, inverse flag; the rejected combinations) is generated on every seed, run through the same scenario and
compared with the model; independent oracle resolve_long (exact name, else the only name starting with p), violation
shape `long-option-abbreviation`.

The two passes over the command line (`doit <loader options> <sub-command> <options> <positional>`):
  part main   the real DoitMain.run, in-process, with a recording task loader (TaskLoader2 with cmd_options: its
              setup() sees the params handed to `execute`, its load_tasks() the same object after DOIT_CONFIG was
              merged), recording sub-commands (DoitCmdBase subclasses `run`, `ca`; a plain Command `cb`), config
              sections through extra_config, environment variables per case  <->  model `main_run`.
              Encoding: outcome (0 executed | 3 run returned 3 | 98 an exception left run), command name, params at
              setup, params after DOIT_CONFIG, positional.  Key numbers: o<k> -> k, base options dep_file 91, backend 92,
              codec_cls 93, check_file_uptodate 94.
  part seq    SEQUENCES on ONE DoitMain object (one config object shared by every command it builds): 2-4 steps, each a
              DoitMain.run of a command line (different commands and the same command) or the mere construction of a
              command + its parser (what `doit help <cmd>` / tabcompletion do); the commands share options (options of
              the loader, base option dep_file / check_file_uptodate, one option definition in the cmd_options of
              several commands) and GLOBAL and the section of every command give them different values  <->  model
              `seq_scenario` (= main_seq init_pure: every step applied to the ORIGINAL configuration).
              Encoding: per step -1, then a run as in part main | a build: 0 + defaults of the parser's options, 3, 98.
              Oracles (no model): `config-mutated` (the config object equals a deep copy taken before the sequence, after
              every step), `seq-step-not-independent` (a step gives what the same step gives as the first one on a fresh
              DoitMain), and the precedence rule below on every run step (shape prefix `seq:`).
  part pe     Command.parse_execute twice on ONE recording command object built with opt_vals  <->  `pe_scenario`.
  part vars   DoitMain.process_args alone  <->  `process_args`.
  part cli    `python -m doit` in a sub-process with dodo files a.py b.py x.py g.py l.py dodo.py defining different
              tasks, DOIT_FILE, doit.cfg / pyproject.toml GLOBAL and [list] sections: which file was loaded (oracle only).
Oracle of these parts (no doit code, no model): the value of an option is the first defined of: command line before
the sub-command name (last occurrence there), command line after it (last occurrence), environment variable,
DOIT_CONFIG, config section of the command, GLOBAL section, declared default; errors in any source give exit code 3.
Regression shapes of the repairs 7ef8d1a / 16042b9 / a0cef0e: `pre-cmdline-overridden-by-doit-config`,
`empty-argument-indexerror`, `config-error-escapes-run`.  KNOWN finding (not repaired): `pre-list-option-keyerror`
(a list option of the loader written before the sub-command name: KeyError out of DoitMain.run).
"""
import concurrent.futures, contextlib, copy, getopt, io, os, subprocess
import common
from common import Outcome

PRE = ('From DoitV Require Import Base CmdParse.\nOpen Scope string_scope.\nOpen Scope list_scope.\n')


def even(s):
    """custom option type: accepts strings of even length"""
    if len(s) % 2:
        raise ValueError('odd length %r' % (s,))
    return len(s) // 2


TYPES = {'bool': bool, 'list': list, 'str': str, 'int': int, 'even': even}
TY_COQ = {'bool': 'TBool', 'list': 'TList', 'str': 'TStr', 'int': 'TOther 0', 'even': 'TOther 1'}
BOOL_TABLE = {'1': True, 'yes': True, 'true': True, 'on': True, '0': False, 'no': False, 'false': False, 'off': False}
WS = '\t\n\x0b\x0c\r\x1c\x1d\x1e\x1f '


# ------------------------------------------------------------------ Coq rendering
def cstr(s):
    assert all(32 <= ord(c) < 127 for c in s), s
    return '"' + s.replace('"', '""') + '"'


def cval(v):
    if v is None:
        return 'VNone'
    if isinstance(v, bool):
        return 'VBool %s' % ('true' if v else 'false')
    if isinstance(v, int):
        return 'VInt (%d)%%Z' % v
    if isinstance(v, str):
        return 'VStr %s' % cstr(v)
    if isinstance(v, list):
        return 'VList [%s]' % '; '.join(cstr(x) for x in v)
    raise TypeError(v)


def clist(xs):
    return '[' + '; '.join(xs) + ']'


def copt(o):
    return 'mkopt %d%%N (%s) (%s) %s %s %s %s %s' % (
        o['n'], TY_COQ[o['ty']], cval(o['default']), cstr(o['short']), cstr(o['long']), cstr(o['inverse']),
        clist(cstr(c) for c in o['choices']), ('(Some %d%%N)' % o['env']) if o['env'] else 'None')


def ckv(kvs):
    return clist('(%d%%N, %s)' % (k, cval(v)) for k, v in kvs)


def case_model(c, legacy=False):
    return 'scenario %s %s %s %s %s %s' % (
        'true' if legacy else 'false', clist(copt(o) for o in c['spec']), ckv(c['cfg']),
        clist('(%d%%N, %s)' % (k, cstr(v)) for k, v in c['env']), clist(cstr(a) for a in c['argv']), ckv(c['dodo']))


# ------------------------------------------------------------------ encoding of observations
def zstr(s):
    return [len(s)] + [ord(ch) for ch in s]


def zval(v):
    if v is None:
        return [0]
    if isinstance(v, bool):
        return [1, int(v)]
    if isinstance(v, int):
        return [2, v]
    if isinstance(v, str):
        return [3] + zstr(v)
    if isinstance(v, list) and all(isinstance(x, str) for x in v):
        out = [4, len(v)]
        for x in v:
            out += zstr(x)
        return out
    return [97]


def zparams(d):
    nd = getattr(d, '_non_default_keys', set())
    out = [len(d)]
    for k, v in d.items():
        out += [int(k[1:]), int(k in nd)] + zval(v)
    return out


def zdefaults(p):
    out = []
    for o in p.options:
        out += zval(o.default)
    return out


def opt_dict(o):
    d = {'name': 'o%d' % o['n'], 'default': copy.deepcopy(o['default']), 'type': TYPES[o['ty']],
         'short': o['short'], 'long': o['long'], 'inverse': o['inverse'],
         'choices': [(c, '') for c in o['choices']]}
    if o['env']:
        d['env_var'] = 'C16V_%d' % o['env']
    return d


class Environ:
    """patch os.environ for one case only"""
    def __init__(self, env):
        self.env = env

    def __enter__(self):
        self.saved = {k: os.environ[k] for k in list(os.environ) if k.startswith('C16V_')}
        for k in self.saved:
            del os.environ[k]
        for k, v in self.env:
            os.environ['C16V_%d' % k] = v

    def __exit__(self, *a):
        for k in [k for k in os.environ if k.startswith('C16V_')]:
            del os.environ[k]
        os.environ.update(self.saved)


def run_impl(c):
    """the scenario on the real classes -> (encoded observation, details for the oracles)"""
    from doit.cmdparse import CmdOption, CmdParse, TaskParse, CmdParseError
    det = {'parses': []}
    obs = []
    cls = TaskParse if c.get('task') else CmdParse
    p = cls([CmdOption(opt_dict(o)) for o in c['spec']])
    try:
        p.overwrite_defaults({'o%d' % k: copy.deepcopy(v) for k, v in c['cfg']})
        o1 = 0
    except CmdParseError:
        o1 = 3
    except Exception:  # noqa
        o1 = 98
    obs += [o1] + zdefaults(p)
    det['overwrite'] = o1
    if o1 != 0:
        return obs, det
    first = None
    with Environ(c['env']):
        for i in range(2):
            before = zdefaults(p)
            try:
                params, args = p.parse(list(c['argv']))
                r = 0
            except CmdParseError:
                r, params, args = 3, None, None
            except Exception:  # noqa
                r, params, args = 98, None, None
            enc = [r]
            if r == 0:
                enc += zparams(params) + [len(args)]
                for a in args:
                    enc += zstr(a)
                if first is None:
                    first = params
            after = zdefaults(p)
            obs += enc + after
            det['parses'].append(dict(outcome=r, enc=enc, before=before, after=after,
                                      params=copy.deepcopy(dict(params)) if r == 0 else None,
                                      args=list(args) if r == 0 else None))
    if det['parses'][0]['outcome'] == 0:
        try:
            first.update_defaults({'o%d' % k: copy.deepcopy(v) for k, v in c['dodo']})
            obs += zparams(first)
            det['final'] = dict(first)
        except Exception:  # noqa
            obs += [98]
    return obs, det


# ------------------------------------------------------------------ reference conversions (oracle side; no doit code)
def int_simple(s):
    """mirror of Model/CmdParse.v int_simple"""
    t = s.strip(WS)
    if not t:
        return None
    neg = t[0] == '-'
    body = t[1:] if neg else t
    if not body or not all(ch in '0123456789' for ch in body):
        return None
    return -int(body) if neg else int(body)


def ref_convert(ty, s):
    """what the documentation says a string means for an option of this type; ValueError if ill-typed"""
    if ty == 'bool':
        if s.lower() not in BOOL_TABLE:
            raise ValueError(s)
        return BOOL_TABLE[s.lower()]
    if ty == 'list':
        return [x.strip() for x in s.split(',') if x.strip()]
    if ty == 'int':
        return int(s)
    if ty == 'even':
        return even(s)
    return s


def check_int_oracle(c, out):
    """every string (and suffix) that could reach int(): the Coq instance must agree with Python's int"""
    strs = set(v for _, v in c['env']) | set(v for _, v in c['cfg'] if isinstance(v, str))
    for a in c['argv']:
        for i in range(len(a) + 1):
            strs.add(a[i:])
    for s in strs:
        try:
            want = int(s)
        except ValueError:
            want = None
        if int_simple(s) != want:
            out.mismatches.append(dict(case='int oracle instance', impl=repr(s), model=str(int_simple(s))))


# ------------------------------------------------------------------ generators
VAL_ALPH = 'abc10xy-=, TeS'
SHORTS = 'abcdefgh'
LONGS = ['ab', 'abc', 'abd', 'b', 'ba', 'c-d', 'de', 'x', 'abcd', 'no']


def rstr(rng, lo=0, hi=4, alph=VAL_ALPH):
    return ''.join(rng.choice(alph) for _ in range(rng.randint(lo, hi)))


def valid_string(rng, o, cmdline):
    """a string an option of this type accepts"""
    ty = o['ty']
    if o['choices'] and ty == 'str':
        return rng.choice(o['choices'])
    if ty == 'int':
        s = str(rng.choice([0, 1, 7, 10, 42, 99, -1, -13]))
        return rng.choice([s, s, s, ' ' + s, s + ' '])
    if ty == 'even':
        return rstr(rng, 0, 2) * 2 if rng.random() < 0.5 else rng.choice(['', 'ab', '-a', 'abcd', '  '])
    if ty == 'bool':
        return rng.choice(['1', 'yes', 'Yes', 'TRUE', 'on', 'On', '0', 'no', 'NO', 'false', 'False', 'off'])
    if ty == 'list' and o['choices']:
        if cmdline:
            return rng.choice(o['choices'])
        return rng.choice(['', ',', o['choices'][0], ','.join(o['choices']), ' %s , ,%s' % (o['choices'][-1], o['choices'][0])])
    if ty == 'list' and not cmdline:
        return rng.choice(['a', 'a,b', ' a , ,b', '', ',', 'x, y ,', 'a,a', '-a,=b'])
    return rstr(rng)


def invalid_string(rng, o, cmdline=True):
    """a string an option of this type rejects (None if there is none)"""
    ty = o['ty']
    if o['choices'] and ty == 'list':
        if cmdline:      # one item, taken as it is
            return rng.choice(['zz', '', ','.join(o['choices']), ' ' + o['choices'][0]])
        return rng.choice(['zz', o['choices'][0] + ',zz', 'zz,' + o['choices'][0], 'a b'])
    if o['choices'] and ty == 'str':
        return rng.choice([s for s in ['zz', '', 'A', o['choices'][0] + ' '] if s not in o['choices']])
    if ty == 'int':
        return rng.choice(['x1', '', '1-', 'a', '--1', '1 1', '1,0', ' '])
    if ty == 'even':
        return rng.choice(['a', 'abc', ' ', '-', 'a=b'])
    if ty == 'bool':
        return rng.choice(['maybe', '', 'y', '2', 'tru', ' yes'])
    return None


def gen_default(rng, ty, choices):
    if ty == 'bool':
        return rng.choice([True, False])
    if ty == 'int' or ty == 'even':
        return rng.choice([0, 5, -3, None])
    if ty == 'list':
        return rng.choice([[], ['d'], ['d', 'e']]) if not choices else rng.choice([[], [choices[0]]])
    return rng.choice(['', 'dflt', None]) if not choices else choices[0]


def gen_wf_spec(rng):
    """distinct names, distinct one-letter shorts, distinct long/inverse names without '='"""
    n = rng.randint(1, 6)
    shorts = rng.sample(SHORTS, n)
    pool = rng.sample(LONGS, len(LONGS))
    spec = []
    for i in range(n):
        ty = rng.choice(['bool', 'bool', 'int', 'str', 'str', 'list', 'list', 'even'])
        choices = rng.choice([[], [], ['a', 'bc', 'x y']]) if ty == 'str' else (rng.choice([[], [], ['a', 'bc']]) if ty == 'list' else [])
        short = shorts[i] if rng.random() < 0.8 else ''
        long_ = pool.pop() if (rng.random() < 0.8 or not short) else ''
        inverse = ''
        if ty == 'bool' and long_ and rng.random() < 0.6:
            inverse = 'no-' + long_
        spec.append(dict(n=i + 1, ty=ty, default=gen_default(rng, ty, choices), short=short, long=long_,
                         inverse=inverse, choices=choices, env=(10 + i) if rng.random() < 0.5 else 0))
    return spec


def long_entries(spec):
    out = []
    for o in spec:
        if o['long']:
            out.append(o['long'] + ('' if o['ty'] == 'bool' else '='))
            if o['inverse']:
                out.append(o['inverse'])
    return out


def unique_prefixes(spec, name, takes_arg):
    """proper prefixes of a long name that getopt resolves to it"""
    entries = long_entries(spec)
    res = []
    for i in range(1, len(name)):
        p = name[:i]
        poss = [e for e in entries if e.startswith(p)]
        if p in poss or p + '=' in poss:
            continue
        if len(poss) == 1:
            res.append(p)
    return res


def render_assignment(rng, spec, o, sval, flagval):
    """tokens for one assignment; the forms getopt offers"""
    forms = []
    if o['ty'] == 'bool':
        if flagval:
            if o['short']:
                forms.append(['-' + o['short']])
            if o['long']:
                forms.append(['--' + o['long']])
                forms += [['--' + p] for p in unique_prefixes(spec, o['long'], False)[:1]]
        else:
            forms.append(['--' + o['inverse']])
    else:
        if o['short']:
            forms.append(['-' + o['short'], sval])
            if sval:
                forms.append(['-' + o['short'] + sval])
        if o['long']:
            forms.append(['--' + o['long'] + '=' + sval])
            forms.append(['--' + o['long'], sval])
            for p in unique_prefixes(spec, o['long'], True)[:1]:
                forms.append(['--' + p + '=' + sval])
    return rng.choice(forms)


def gen_wf_case(rng, inject=None):
    """class A: well-formed spec, every source filled from an assignment the oracle knows.
    inject = kind of a single error put on the command line / in the environment (class B)"""
    spec = gen_wf_spec(rng)
    cfg, env, dodo, assigns = [], [], [], []
    for o in spec:
        if rng.random() < 0.4:
            s = valid_string(rng, o, False)
            cfg.append((o['n'], s if rng.random() < 0.8 else ref_convert(o['ty'], s)))
        if o['env'] and rng.random() < 0.5:
            env.append((o['env'], valid_string(rng, o, False)))
        if rng.random() < 0.35:
            dodo.append((o['n'], ref_convert(o['ty'], valid_string(rng, o, False))))
    if rng.random() < 0.2:
        dodo.append((9, 'extra'))
    usable = [o for o in spec if o['short'] or o['long']]
    opt_tokens = []
    last_short_flag = False          # the last token is '-xy..' made of short flags only
    for _ in range(rng.randint(0, 5)):
        if not usable:
            break
        o = rng.choice(usable)
        if o['ty'] == 'bool':
            flagval = rng.random() < 0.6 or not o['inverse']
            assigns.append((o['n'], flagval))
            toks = render_assignment(rng, spec, o, None, flagval)
        else:
            s = valid_string(rng, o, True)
            assigns.append((o['n'], s))
            toks = render_assignment(rng, spec, o, s, None)
        is_short = len(toks[0]) >= 2 and toks[0][0] == '-' and toks[0][1] != '-'
        if last_short_flag and is_short and rng.random() < 0.6:
            opt_tokens[-1] += toks[0][1:]          # cluster: -a -b -> -ab ; -a -s v -> -as v ; -a -sv -> -asv
            opt_tokens += toks[1:]
        else:
            opt_tokens += toks
        last_short_flag = is_short and o['ty'] == 'bool'
    pos, pos_tokens = [], []
    if rng.random() < 0.6:
        pos = [rstr(rng, 0, 3) for _ in range(rng.randint(1, 3))]
        if rng.random() < 0.4:
            pos_tokens = ['--'] + pos
        else:
            if pos[0].startswith('-') and pos[0] != '-':
                pos[0] = 'p' + pos[0]
            pos_tokens = list(pos)
    c = dict(kind='wf', spec=spec, cfg=cfg, env=env, dodo=dodo, argv=opt_tokens + pos_tokens, assigns=assigns, pos=pos,
             opt_tokens=opt_tokens, task=rng.random() < 0.3)
    if inject == 'env-ill-typed':
        cands = [o for o in spec if invalid_string(rng, o, False) is not None]
        if cands:
            o = rng.choice(cands)
            if not o['env']:
                o['env'] = 10 + o['n']
            c['env'] = [(k, v) for k, v in env if k != o['env']] + [(o['env'], invalid_string(rng, o, False))]
            c['kind'] = 'bad:' + inject
            c['bad_opt'] = o['n']
    elif inject == 'cfg-ill-typed':
        cands = [o for o in spec if invalid_string(rng, o, False) is not None]
        if cands:
            o = rng.choice(cands)
            c['cfg'] = [(k, v) for k, v in cfg if k != o['n']] + [(o['n'], invalid_string(rng, o, False))]
            c['kind'] = 'bad:' + inject
            c['bad_opt'] = o['n']
    elif inject == 'missing-arg':
        valued = [o for o in spec if o['ty'] != 'bool' and (o['short'] or o['long'])]
        if valued:
            o = rng.choice(valued)
            tok = ('-' + o['short']) if (o['short'] and (rng.random() < 0.5 or not o['long'])) else ('--' + o['long'])
            c.update(kind='bad:' + inject, argv=opt_tokens + [tok], pos=[])
    elif inject:
        bad = make_bad_tokens(rng, spec, inject)
        if bad is not None:
            c.update(kind='bad:' + inject, argv=opt_tokens + bad[0] + pos_tokens, bad_opt=bad[1])
    return c


def make_bad_tokens(rng, spec, kind):
    """(tokens, number of the option concerned or 0) or None"""
    shorts = {o['short'] for o in spec}
    entries = long_entries(spec)
    valued = [o for o in spec if o['ty'] != 'bool']
    if kind == 'unknown-short':
        free = [ch for ch in 'zqw:' if ch not in shorts]
        return ['-' + rng.choice(free)], 0
    if kind == 'unknown-long':
        nm = rng.choice(['zz', 'q', 'zeta'])
        return (['--' + nm], 0) if not any(e.startswith(nm) for e in entries) else None
    if kind == 'flag-with-arg':
        fl = [o for o in spec if o['ty'] == 'bool' and o['long']]
        return (['--' + rng.choice(fl)['long'] + '=1'], 0) if fl else None
    if kind == 'ambiguous':
        for i in (1, 2, 3):
            for e in entries:
                p = e[:i]
                poss = [x for x in entries if x.startswith(p)]
                if len(poss) > 1 and p not in poss and p + '=' not in poss and '=' not in p:
                    return ['--' + p], 0
        return None
    if kind in ('ill-typed', 'bad-choice'):
        cands = [o for o in valued if (o['short'] or o['long']) and
                 ((kind == 'bad-choice') == bool(o['choices'])) and invalid_string(rng, o) is not None]
        if not cands:
            return None
        o = rng.choice(cands)
        return render_assignment(rng, spec, o, invalid_string(rng, o), None), o['n']
    return None


WILD_TOKENS = ['-', '--', '', '---', '-=', '--=', '--=a', '-:', '-a', '-b', '-ab', '-ba', '-abc', '--a', '--ab', '--abc', '--ab=',
               '--ab=1', '--b', '--b=x', '--no', '--no-ab', '--x', '--x=', 'a', 'b', '1', 'x y', '-1', '--c-d', '--c', '-a1', '-c', '-ca',
               '--ab=a=b', '-a=1', '--de', '--d', '-d', '-e', 'yes', '--ba', '--abd=--', '-h', '- a']


def gen_wild_case(rng):
    """class C: anything goes (ill-formed specs included); correspondence and purity only"""
    n = rng.randint(0, 5)
    spec = []
    for i in range(n):
        ty = rng.choice(['bool', 'int', 'str', 'list', 'even'])
        choices = rng.choice([[], [], [], ['a', 'bc'], ['1', 'yes']])
        default = rng.choice([gen_default(rng, ty, []), gen_default(rng, ty, []), None, 'str', ['l']])
        spec.append(dict(
            n=rng.choice([i + 1, i + 1, i + 1, 1]), ty=ty, default=default,
            short=rng.choice(['a', 'b', 'c', 'd', 'e', '', 'ab', ':', '-', '=', 'a']),
            long=rng.choice(['ab', 'abc', 'a', 'b', 'ba', 'c-d', '', 'x', 'ab=', 'de', 'no-ab']),
            inverse=rng.choice(['', '', 'no-ab', 'no', 'abc', 'x']),
            choices=choices, env=rng.choice([0, 0, 10, 11, 12])))
    sval = lambda: rng.choice(['1', 'yes', 'a,b', 'x', '', ' 7', 'bc', 'off', 'a', '-2'])

    def tok():
        r = rng.random()
        if spec and r < 0.55:           # tokens built from the names of this spec
            o = rng.choice(spec)
            return rng.choice(['-' + o['short'], '-' + o['short'] + sval(), '--' + o['long'], '--' + o['long'] + '=' + sval(),
                               '--' + o['inverse'], '--' + o['long'][:1], '-' + o['short'] + rng.choice(spec)['short'], sval()])
        return rng.choice(WILD_TOKENS) if r < 0.9 else rstr(rng, 0, 4, '-ab=c: ,1')
    argv = [tok() for _ in range(rng.randint(0, 6))]
    tval = lambda: rng.choice([None, True, False, 3, ['q'], [], sval(), sval()])
    cfg = [(rng.randint(1, 6), tval()) for _ in range(rng.choice([0, 0, 1, 2]))]
    dodo = [(rng.randint(1, 7), tval()) for _ in range(rng.choice([0, 0, 1, 2]))]
    env = [(k, sval()) for k in (10, 11, 12) if rng.random() < 0.3]
    # a dict has one entry per key
    cfg = list(dict(cfg).items())
    dodo = list(dict(dodo).items())
    return dict(kind='wild', spec=spec, cfg=cfg, env=env, dodo=dodo, argv=argv, assigns=None, pos=None, task=rng.random() < 0.3)


# ------------------------------------------------------------------ the property, judged on the implementation alone
def expected_wf(c):
    """final value of every key + positional args, computed from the assignment (no doit code)"""
    byn = {o['n']: o for o in c['spec']}
    envd = dict(c['env'])
    vals, nd = {}, set()
    for o in c['spec']:
        v = copy.deepcopy(o['default'])
        for k, cv in c['cfg']:
            if k == o['n']:
                v = ref_convert(o['ty'], cv) if isinstance(cv, str) else cv
        if o['env'] and o['env'] in envd:
            v = ref_convert(o['ty'], envd[o['env']])
            nd.add(o['n'])
        vals[o['n']] = v
    for k, a in c['assigns']:
        o = byn[k]
        if o['ty'] == 'bool':
            vals[k] = a
        elif o['ty'] == 'list':
            vals[k] = vals[k] + [a]
        else:
            vals[k] = ref_convert(o['ty'], a)
        nd.add(k)
    parsed = dict(vals)
    for k, v in c['dodo']:
        if k not in nd:
            vals[k] = v
    return parsed, vals


def judge(c, det, out):
    shape = c['kind']
    slim = {k: c[k] for k in ('spec', 'cfg', 'env', 'dodo', 'argv')}
    ps = det['parses']
    if len(ps) == 2:
        # purity: same parser object, same input -> same result; option defaults untouched
        if ps[0]['enc'] != ps[1]['enc']:
            out.violations.append(dict(what='parsing the same command line twice with one parser object gave different results',
                                       shape='impure-second-parse', case=slim))
        if ps[0]['before'] != ps[0]['after'] or ps[1]['before'] != ps[1]['after']:
            out.violations.append(dict(what='parse() changed the default of an option of the parser',
                                       shape='parse-mutates-default', case=slim))
    if shape == 'wf':
        parsed, final = expected_wf(c)
        ok = det['overwrite'] == 0 and ps and ps[0]['outcome'] == 0
        if not ok:
            oc = ps[0]['outcome'] if ps else det['overwrite']
            lc = any(o['ty'] == 'list' and o['choices'] for o in c['spec'])
            out.violations.append(dict(what='a well-formed command line / environment / configuration was rejected (outcome %s)' % oc,
                                       shape='list-choices-typeerror' if (oc == 98 and lc) else 'wf-rejected', case=slim))
            return
        got = {int(k[1:]): v for k, v in ps[0]['params'].items()}
        if got != parsed:
            out.violations.append(dict(what='parsed option values differ from the values written (expected %r, got %r)' % (parsed, got),
                                       shape='roundtrip-values', case=slim))
        if ps[0]['args'] != c['pos']:
            out.violations.append(dict(what='positional arguments not returned unchanged (expected %r, got %r)' % (c['pos'], ps[0]['args']),
                                       shape='roundtrip-positional', case=slim))
        gotf = {int(k[1:]): v for k, v in det.get('final', {}).items()}
        if gotf != final:
            out.violations.append(dict(what='precedence cmdline > env > DOIT_CONFIG > config file > default violated (expected %r, got %r)' % (final, gotf),
                                       shape='precedence', case=slim))
    elif shape.startswith('bad:'):
        oc = ps[0]['outcome'] if ps else det['overwrite']
        if oc != 3:
            o = next((o for o in c['spec'] if o['n'] == c.get('bad_opt')), None)
            sid = 'not-rejected:' + shape[4:]
            lc = any(o_['ty'] == 'list' and o_['choices'] for o_ in c['spec'])
            if oc == 98 and lc:
                sid = 'list-choices-typeerror'
            elif o is not None and o['ty'] == 'list' and o['choices']:
                sid = 'list-choices-cmdline-unvalidated'
            out.violations.append(dict(what='%s was not rejected with a parse error (outcome %s)' % (shape[4:], oc),
                                       shape=sid, case=slim))


# ------------------------------------------------------------------ parts
def part_scenarios(ctx, out):
    rng = ctx.rng
    cases = []
    kinds = ['unknown-short', 'unknown-long', 'flag-with-arg', 'ambiguous', 'ill-typed', 'bad-choice', 'env-ill-typed',
             'cfg-ill-typed', 'missing-arg']
    plan = [('wf', ctx.n(170, 2400)), ('bad', ctx.n(110, 1500)), ('wild', ctx.n(170, 2600))]
    for what, n in plan:
        for _ in range(n):
            if what == 'wf':
                c = gen_wf_case(rng)
            elif what == 'bad':
                c = gen_wf_case(rng, inject=rng.choice(kinds))
            else:
                c = gen_wild_case(rng)
            check_int_oracle(c, out)
            try:
                obs, det = run_impl(c)
            except Exception as e:  # noqa  (e.g. the constructor raising)
                obs, det = [98], {'parses': [], 'overwrite': 98}
            judge(c, det, out)
            out.count('scenario:' + c['kind'])
            for p_ in det['parses'][:1]:
                out.count('parse-outcome:%s:%d' % (c['kind'].split(':')[0], p_['outcome']))
            if c['argv'] or c['env'] or c['cfg']:
                out.nontrivial.add((c['kind'], tuple(c['argv']), tuple((o['ty'], o['short'], o['long'], o['inverse']) for o in c['spec']),
                                    tuple(c['env']), repr(c['cfg'])))
            cases.append(dict(model=case_model(c), expected=obs, desc=dict(kind=c['kind'], spec=c['spec'], cfg=c['cfg'], env=c['env'],
                                                                          dodo=c['dodo'], argv=c['argv'])))
            if len(out.samples) < 3 and c['kind'] == 'wf' and len(c['argv']) >= 3:
                out.samples.append(dict(argv=c['argv'], options=[(o['ty'], o['short'], o['long'], o['inverse']) for o in c['spec']],
                                        env=c['env'], config=c['cfg'], doit_config=c['dodo'], observed=obs))
    return cases


def part_getopt(ctx, out):
    """getopt.getopt itself against the model's getopt (random short/long tables, random tokens)"""
    rng = ctx.rng
    cases = []
    for _ in range(ctx.n(150, 2500)):
        so = ''.join(rng.choice(['a', 'b', 'c', 'a:', 'b:', 'd:', ':', '-', '=', 'e']) for _ in range(rng.randint(0, 4)))
        lo = [rng.choice(['ab', 'ab=', 'abc', 'abc=', 'a', 'a=', 'b=', 'ba', 'c-d=', 'x', '=', 'de=', 'no-ab']) for _ in range(rng.randint(0, 4))]
        tok = lambda: rng.choice(WILD_TOKENS) if rng.random() < 0.8 else rstr(rng, 0, 4, '-ab=c: ,1')
        args = [tok() for _ in range(rng.randint(0, 6))]
        try:
            opts, rest = getopt.getopt(list(args), so, list(lo))
            obs = [0, len(opts)]
            for o, v in opts:
                obs += zstr(o) + zstr(v)
            obs += [len(rest)]
            for a in rest:
                obs += zstr(a)
        except getopt.GetoptError:
            obs = [3]
        except Exception:  # noqa
            obs = [98]
        out.count('getopt:%s' % ('error' if obs == [3] else 'ok'))
        if args:
            out.nontrivial.add(('getopt', so, tuple(lo), tuple(args)))
        cases.append(dict(model='getopt_z (getopt %s %s %s)' % (cstr(so), clist(cstr(x) for x in lo), clist(cstr(a) for a in args)),
                          expected=obs, desc=dict(kind='getopt', short=so, long=lo, args=args)))
    return cases


# ------------------------------------------------------------------ abbreviated long options
# families of long names that are prefixes of each other / share prefixes
AB_FAMILIES = [['fi', 'file', 'files'], ['verb', 'verbosity', 'verbose'], ['db', 'db-file', 'dbm'], ['cont', 'continue'],
               ['seek', 'see-k'], ['x', 'xyz'], ['no', 'none', 'no-x'], ['output', 'out-dir']]


def gen_abbrev_spec(rng, names=None):
    """well-formed spec whose long names come from AB_FAMILIES: exact-vs-prefix and ambiguous prefixes abound"""
    if names is None:
        names = rng.sample([n for fam in AB_FAMILIES for n in fam], rng.randint(2, 7))
    shorts = rng.sample(SHORTS, len(names))
    used = set(names)
    spec = []
    for i, nm in enumerate(names):
        ty = rng.choice(['bool', 'bool', 'bool', 'int', 'str', 'list'])
        inverse = ''
        if ty == 'bool' and rng.random() < 0.6 and ('no-' + nm) not in used:
            inverse = 'no-' + nm
            used.add(inverse)
        spec.append(dict(n=i + 1, ty=ty, default=gen_default(rng, ty, []), short=shorts[i] if rng.random() < 0.5 else '',
                         long=nm, inverse=inverse, choices=[], env=0))
    return spec


def long_names_of(spec):
    """long / inverse name -> (option, is_inverse)   (independent of long_entries / getopt)"""
    names = {}
    for o in spec:
        if o['long']:
            names[o['long']] = (o, False)
            if o['inverse']:
                names[o['inverse']] = (o, True)
    return names


def resolve_long(names, p):
    """what the documentation of getopt promises for --p: the option named p, else the only option whose
    name starts with p, else an error ('unknown' / 'ambiguous')"""
    if p in names:
        return names[p]
    cands = [n for n in names if n.startswith(p)]
    if len(cands) == 1:
        return names[cands[0]]
    return 'unknown' if not cands else 'ambiguous'


def abbrev_forms(spec):
    """every abbreviated way of writing a long / inverse name of the spec, by kind:
       unique            proper prefix of exactly one name
       exact-vs-prefix   a full name that is a proper prefix of another name (the exact match must win)
       ambiguous         proper prefix of two names or more, equal to none
    -> list of (kind, prefix, option or None, is_inverse)"""
    names = long_names_of(spec)
    res, seen = [], set()
    for nm, (o, inv) in names.items():
        for i in range(1, len(nm) + 1):
            p = nm[:i]
            if p in seen:
                continue
            r = resolve_long(names, p)
            if p == nm:
                if any(n != nm and n.startswith(nm) for n in names):
                    seen.add(p)
                    res.append(('exact-vs-prefix', p, o, inv))
            elif r == 'ambiguous':
                seen.add(p)
                res.append(('ambiguous', p, None, False))
            elif p not in names:
                seen.add(p)
                res.append(('unique', p, o, inv))
    return res


def gen_abbrev_cases(rng, spec, per_kind):
    """cases for one spec: a few ordinary assignments, then ONE abbreviated unit, then positionals"""
    forms = abbrev_forms(spec)
    cases = []
    for kind in ('unique', 'exact-vs-prefix', 'ambiguous'):
        sel = [f for f in forms if f[0] == kind]
        rng.shuffle(sel)
        for _, p, o, inv in sel[:per_kind]:
            variants = []          # (sub-kind, tokens, assignment or None = must be rejected, must be last)
            v = valid_string(rng, o, True) if o is not None and o['ty'] != 'bool' else rng.choice(['1', 'x', ''])
            if o is None:
                variants += [('ambiguous', ['--' + p], None, False), ('ambiguous-eq', ['--' + p + '=' + v], None, False)]
            elif o['ty'] == 'bool':
                variants += [(kind + (':inverse' if inv else ':flag'), ['--' + p], (o['n'], not inv), False),
                             (kind + (':inverse-with-value' if inv else ':flag-with-value'), ['--' + p + '=' + v], None, False)]
            else:
                variants += [(kind + ':value-eq', ['--' + p + '=' + v], (o['n'], v), False),
                             (kind + ':value-next', ['--' + p, v], (o['n'], v), False),
                             (kind + ':value-missing', ['--' + p], None, True)]
            for sub, toks, asg, last in variants:
                assigns, pre = [], []
                usable = [x for x in spec if x['short'] or x['long']]
                for _ in range(rng.randint(0, 2)):
                    x = rng.choice(usable)
                    if x['ty'] == 'bool':
                        fv = rng.random() < 0.6 or not x['inverse']
                        assigns.append((x['n'], fv))
                        pre += render_assignment(rng, spec, x, None, fv)
                    else:
                        s = valid_string(rng, x, True)
                        assigns.append((x['n'], s))
                        pre += render_assignment(rng, spec, x, s, None)
                pos = [] if last else rng.choice([[], ['t1'], ['t1', '-x', '--fi'], ['--', '--f']])
                pos_tokens = list(pos)
                if pos and pos[0] == '--':
                    pos = pos[1:]
                if asg is not None:
                    assigns.append(asg)
                cases.append(dict(kind='abbrev:' + sub, spec=copy.deepcopy(spec), cfg=[], env=[], dodo=[], argv=pre + toks + pos_tokens,
                                  assigns=assigns if asg is not None else None, pos=pos, written=toks, task=rng.random() < 0.3))
    return cases


def judge_abbrev(c, det, out):
    """oracle (no doit code, no model): an abbreviation that names one option is that option; an ambiguous one,
    a flag given a value, a missing value are parse errors"""
    slim = {k: c[k] for k in ('spec', 'cfg', 'env', 'dodo', 'argv')}
    ps = det['parses']
    oc = ps[0]['outcome'] if ps else det['overwrite']
    if c['assigns'] is None:
        if oc != 3:
            out.violations.append(dict(what='%s: %s was not rejected with a parse error (outcome %s)' % (c['kind'], ' '.join(c['written']), oc),
                                       shape='long-option-abbreviation', case=slim))
        return
    if oc != 0:
        out.violations.append(dict(what='%s: %s was rejected (outcome %s)' % (c['kind'], ' '.join(c['written']), oc),
                                   shape='long-option-abbreviation', case=slim))
        return
    parsed, _ = expected_wf(c)
    got = {int(k[1:]): v for k, v in ps[0]['params'].items()}
    if got != parsed or ps[0]['args'] != c['pos']:
        out.violations.append(dict(what='%s: %s gave values %r positional %r, expected %r %r' % (
            c['kind'], ' '.join(c['written']), got, ps[0]['args'], parsed, c['pos']), shape='long-option-abbreviation', case=slim))
    if len(ps) == 2 and ps[0]['enc'] != ps[1]['enc']:
        out.violations.append(dict(what='parsing the same command line twice with one parser object gave different results',
                                   shape='impure-second-parse', case=slim))


AB_DIRECTED = [['fi', 'file', 'files'], ['verb', 'verbosity', 'verbose', 'x'], ['no', 'none', 'db', 'db-file', 'dbm'], ['cont', 'continue', 'output', 'out-dir']]
AB_KINDS = ['unique:flag', 'unique:inverse', 'unique:value-eq', 'unique:value-next', 'unique:value-missing', 'unique:flag-with-value',
            'unique:inverse-with-value', 'exact-vs-prefix:flag', 'exact-vs-prefix:value-eq', 'exact-vs-prefix:value-next',
            'exact-vs-prefix:flag-with-value', 'exact-vs-prefix:value-missing', 'ambiguous', 'ambiguous-eq']


def part_abbrev(ctx, out):
    """abbreviated long options (getopt.long_has_args): unique prefixes, exact-vs-prefix, ambiguous prefixes, with and
    without =VALUE, for valued options, flags and inverse flags  <->  model `scenario`; oracle shape long-option-abbreviation.
    Directed specs (every kind of AB_KINDS on every seed) + random ones"""
    rng = ctx.rng
    raw = []
    # directed: for each family set, one spec per typing that makes the first (shortest) names flags resp. valued
    for names in AB_DIRECTED:
        for mode in ('flags', 'valued'):
            spec = gen_abbrev_spec(rng, names)
            for i, o in enumerate(spec):
                if mode == 'flags':
                    o.update(ty='bool', default=False, inverse='no-' + o['long'] if ('no-' + o['long']) not in names and i % 2 == 0 else '')
                else:
                    o.update(ty=['str', 'int', 'list'][i % 3], default=[None, 0, []][i % 3], inverse='')
            raw += gen_abbrev_cases(rng, spec, ctx.n(2, 4))
    for _ in range(ctx.n(14, 140)):
        raw += gen_abbrev_cases(rng, gen_abbrev_spec(rng), ctx.n(1, 2))
    cases = []
    for c in raw:
        check_int_oracle(c, out)
        try:
            obs, det = run_impl(c)
        except Exception:  # noqa
            obs, det = [98], {'parses': [], 'overwrite': 98}
        judge_abbrev(c, det, out)
        out.count(c['kind'])
        out.nontrivial.add((c['kind'], tuple(c['argv']), tuple((o['ty'], o['short'], o['long'], o['inverse']) for o in c['spec'])))
        cases.append(dict(model=case_model(c), expected=obs, desc=dict(kind=c['kind'], spec=c['spec'], cfg=[], env=[], dodo=[], argv=c['argv'])))
    missing = [k for k in AB_KINDS if not out.distribution.get('abbrev:' + k)]
    if missing:          # generator self-check: every kind on every seed
        out.mismatches.append(dict(case='abbreviated long options: kinds not generated', impl=missing, model=''))
    return cases


def part_task_options(ctx, out):
    """Task.init_options (task.py 375-397): per-task params with cfg_values as defaults; observed
    through task.options, compared with the model's overwrite_defaults + parse"""
    from doit.task import Task
    from doit.cmdparse import CmdParseError
    rng = ctx.rng
    cases = []
    for _ in range(ctx.n(40, 500)):
        c = gen_wf_case(rng, inject=rng.choice([None, None, None, 'ill-typed', 'unknown-short']))
        if not c['argv']:
            continue
        c['dodo'] = []
        params = [opt_dict(o) for o in c['spec']]
        with Environ(c['env']):
            try:
                t = Task('t', None, params=params)
                t.cfg_values = {'o%d' % k: copy.deepcopy(v) for k, v in c['cfg']}
                rest = t.init_options(list(c['argv']))
                obs = [0, len(t.options)]
                for k, v in t.options.items():
                    obs += [int(k[1:])] + zval(v)
                obs += [len(rest)]
                for a in rest:
                    obs += zstr(a)
            except CmdParseError:
                obs = [3]
            except Exception:  # noqa
                obs = [98]
        model = ('let st0 := mk_parser %s in let (o1, st1) := overwrite_defaults conv_ref st0 %s in '
                 'match o1 with Ok _ => match fst (parse conv_ref st1 (env_of %s) %s) with '
                 '| Ok (d, args) => [0%%Z; Z.of_nat (List.length (d_items d))] ++ flat_map (fun kv => zN (fst kv) :: value_z (snd kv)) (d_items d) '
                 '++ Z.of_nat (List.length args) :: flat_map str_z args | r => [outcome_z r] end | r => [outcome_z r] end') % (
            clist(copt(o) for o in c['spec']), ckv(c['cfg']),
            clist('(%d%%N, %s)' % (k, cstr(v)) for k, v in c['env']), clist(cstr(a) for a in c['argv']))
        out.count('task-params:%s' % ('ok' if obs[0] == 0 else 'error'))
        out.nontrivial.add(('task', tuple(c['argv']), repr(c['cfg'])))
        if c['kind'] == 'wf':
            parsed, _ = expected_wf(c)
            got = {int(k[1:]): v for k, v in t.options.items()} if obs[0] == 0 else None
            if got != parsed or rest != c['pos']:
                out.violations.append(dict(what='task params: values/positional differ from the values written (expected %r %r, got %r %r)' % (
                    parsed, c['pos'], got, rest if obs[0] == 0 else None),
                    shape='list-choices-typeerror' if (obs[0] == 98 and any(o['ty'] == 'list' and o['choices'] for o in c['spec'])) else 'task-params-roundtrip',
                    case={k: c[k] for k in ('spec', 'cfg', 'env', 'argv')}))
        elif obs[0] != 3:
            out.violations.append(dict(what='task params: %s not rejected with a parse error' % c['kind'],
                                       shape='list-choices-typeerror' if (obs[0] == 98 and any(o['ty'] == 'list' and o['choices'] for o in c['spec'])) else 'task-params-not-rejected',
                                       case={k: c[k] for k in ('spec', 'cfg', 'env', 'argv')}))
        cases.append(dict(model=model, expected=obs, desc=dict(kind='task-params', spec=c['spec'], cfg=c['cfg'], env=c['env'], argv=c['argv'])))
    return cases


def part_exit_code(ctx, out):
    """DoitMain.run maps CmdParseError to exit code 3 (doit_cmd.py 293-310): exercised, not modelled"""
    import io, contextlib
    from doit.doit_cmd import DoitMain
    d = ctx.subdir('exit3')
    with open(os.path.join(d, 'dodo.py'), 'w') as f:
        f.write("def task_t():\n    return {'actions': None, 'params': [{'name': 'n', 'short': 'n', 'type': int, 'default': 0}]}\n")
    cwd = os.getcwd()
    n = 0
    try:
        os.chdir(d)
        for argv, want in ((['run', '--zz-unknown'], 3), (['list', '-Z'], 3), (['run', '--verbosity'], 3),
                           (['run', '--verbosity=x'], 3), (['run', '--continue=1'], 3), (['list', '--quiet'], 0)):
            buf = io.StringIO()
            with contextlib.redirect_stdout(buf), contextlib.redirect_stderr(buf):
                try:
                    rc = DoitMain().run(argv + ([] if argv[0] != 'run' else []))
                except SystemExit as e:
                    rc = e.code
                except Exception:  # noqa
                    rc = 98
            n += 1
            out.count('exit-code:%s' % rc)
            if rc != want:
                out.violations.append(dict(what='doit %s exited with %s, expected %s' % (' '.join(argv), rc, want),
                                           shape='exit-code-3', case=dict(argv=argv)))
    finally:
        # `list` never closes its dependency manager (doit.Globals.dep_manager keeps it): drop it while its directory
        # still exists, as the end of the doit process would, or dbm.dumb's __del__ writes at interpreter exit
        import gc
        import doit.globals
        doit.globals.Globals.dep_manager = None
        gc.collect()
        os.chdir(cwd)
    out.extra['exit_code_runs_exercised_only'] = n



# ================================================================== the two passes over the command line
BASE_NUM = {'dep_file': 91, 'backend': 92, 'codec_cls': 93, 'check_file_uptodate': 94}
BACKENDS = ['dbm', 'json', 'sqlite3']
LONGS_PF = ['file', 'seek', 'alpha', 'xyz', 'opt', 'mm', 'nn', 'kk-l', 'ww', 'uu', 'jj', 'gamma']    # prefix-free, none starts with b/c/d
LONGS_MW = ['file', 'fi', 'seek', 'se', 'alpha', 'al', 'xyz', 'xy', 'opt', 'mm', 'no-mm', 'a=', '']   # wild: prefixes of each other
SHORTS_M = 'fkvnsmlpqrtuw'
CMD_NAMES = ['run', 'ca', 'cb']


def knum(k):
    return BASE_NUM[k] if k in BASE_NUM else int(k[1:])


def kname(n):
    for k, v in BASE_NUM.items():
        if v == n:
            return k
    return 'o%d' % n


def base_spec():
    """DoitCmdBase.base_options of the code under test, as a spec of the model"""
    from doit.cmd_base import DoitCmdBase
    out = []
    for o in DoitCmdBase.base_options:
        if o.get('type', str) is not str or o['name'] not in BASE_NUM or o.get('env_var') or o.get('choices'):
            raise RuntimeError('base option %r is outside what harness/c16.py renders' % (o,))
        out.append(dict(n=BASE_NUM[o['name']], ty='str', default=o['default'], short=o.get('short', ''), long=o.get('long', ''),
                        inverse='', choices=[], env=0))
    return out


def zparams_n(items, nd):
    out = [len(items)]
    for k, v in items:
        out += [knum(k), int(k in nd)] + zval(v)
    return out


def snap(params):
    return [(k, copy.deepcopy(v)) for k, v in params.items()], set(getattr(params, '_non_default_keys', set()))


def ccli(c):
    base = clist(copt(o) for o in c['base'])
    cmds = clist('mkcmd %s %s %s' % (cstr(cm['name']), 'true' if cm['task'] else 'false', clist(copt(o) for o in cm['spec'])) for cm in c['cmds'])
    cfg = clist('(%s, %s)' % (cstr(sec), ckv(items)) for sec, items in c['config'])
    return '(mkcli %s %d%%N %s %s %s %s)' % (base, BASE_NUM['backend'], clist(cstr(b) for b in BACKENDS), clist(copt(o) for o in c['lspec']), cmds, cfg)


def main_model(c):
    return 'main_scenario %s %s %s %s' % (ccli(c), clist('(%d%%N, %s)' % (k, cstr(v)) for k, v in c['env']), ckv(c['dodo']),
                                         clist(cstr(a) for a in c['argv']))


class _Dummy:
    """stands for the dependency manager: DoitCmdBase.execute must not create a DB file"""
    def close(self):
        pass


def build_main(c, rec):
    """a DoitMain whose loader and sub-commands record what they are given"""
    from doit.doit_cmd import DoitMain
    from doit.cmd_base import DoitCmdBase, Command, TaskLoader2

    class Loader(TaskLoader2):
        cmd_options = tuple(opt_dict(o) for o in c['lspec'])

        def setup(self, opt_values):
            self.p = opt_values
            rec['setup'] = snap(opt_values)

        def load_doit_config(self):
            return {kname(k): copy.deepcopy(v) for k, v in c['dodo']}

        def load_tasks(self, cmd, pos_args):
            rec.update(final=snap(self.p), pos=list(pos_args), cmd=cmd.name)
            return []

    classes = []
    for cm in c['cmds']:
        if cm['task']:
            class TC(DoitCmdBase):
                name = cm['name']
                doc_purpose = 'recording command'
                cmd_options = tuple(opt_dict(o) for o in cm['spec'])

                def __init__(self, **kw):
                    super().__init__(**kw)
                    self.dep_manager = _Dummy()

                def _execute(self):
                    rec['executed'] = True
                    return 0
            classes.append(TC)
        else:
            class PC(Command):
                name = cm['name']
                doc_purpose = 'recording command'
                cmd_options = tuple(opt_dict(o) for o in cm['spec'])

                def execute(self, params, args):
                    s_ = snap(params)
                    rec.update(setup=s_, final=s_, pos=list(args), cmd=self.name, executed=True)
                    return 0
            classes.append(PC)

    class Main(DoitMain):
        DOIT_CMDS = tuple(classes)

    config = {sec: {kname(k): copy.deepcopy(v) for k, v in items} for sec, items in c['config']}
    return Main(task_loader=Loader(), config_filenames=(), extra_config=config)


def one_main_run(main, rec, argv):
    """main.run(argv) -> (encoded observation, what the recording loader / command saw)"""
    rec.clear()
    buf = io.StringIO()
    with contextlib.redirect_stdout(buf), contextlib.redirect_stderr(buf):
        try:
            rc = main.run(list(argv))
        except BaseException:  # noqa
            rc = 98
    if rc == 0 and rec.get('executed'):
        obs = [0] + zstr(rec['cmd']) + zparams_n(*rec['setup']) + zparams_n(*rec['final']) + [len(rec['pos'])]
        for a in rec['pos']:
            obs += zstr(a)
    elif rc == 0 and not rec and argv and argv[0] in ('--version', '--help'):
        obs = [0] + zstr(argv[0]) + [0, 0, 0]
    elif rc in (3, 98):
        obs = [rc]
    else:
        obs = [97, rc if isinstance(rc, int) else -1]
    return obs, dict(rec, rc=rc)


def run_main_impl(c, times=1):
    """DoitMain.run on the case -> list of (encoded observation, rec) for `times` runs of ONE DoitMain object"""
    from doit import doit_cmd
    from doit.globals import Globals
    from doit.action import CmdAction
    res = []
    saved = (Globals.dep_manager, CmdAction.STRING_FORMAT, doit_cmd._CMDLINE_VARS)
    try:
        rec = {}
        with Environ(c['env']):
            try:
                main = build_main(c, rec)
            except Exception:  # noqa
                return [([98], {})] * times
            for _ in range(times):
                res.append(one_main_run(main, rec, c['argv']))
    finally:
        Globals.dep_manager, CmdAction.STRING_FORMAT, doit_cmd._CMDLINE_VARS = saved
    return res


# ------------------------------------------------------------------ generators (main)
def gen_pool(rng, n, wild=False):
    """n options with distinct names; well-formed: distinct one-letter shorts, prefix-free long names"""
    shorts = rng.sample(SHORTS_M, n)
    longs = rng.sample(LONGS_PF, n)
    pool = []
    for i in range(n):
        ty = rng.choice(['bool', 'bool', 'int', 'str', 'str', 'list', 'even'])
        choices = rng.choice([[], [], ['a', 'bc', 'x y']]) if ty == 'str' else (rng.choice([[], [], ['a', 'bc']]) if ty == 'list' else [])
        short = shorts[i] if rng.random() < 0.8 else ''
        long_ = longs[i] if (rng.random() < 0.8 or not short) else ''
        inverse = ('no-' + long_) if (ty == 'bool' and long_ and rng.random() < 0.5) else ''
        o = dict(n=i + 1, ty=ty, default=gen_default(rng, ty, choices), short=short, long=long_, inverse=inverse, choices=choices,
                 env=(10 + i + 1) if rng.random() < 0.5 else 0)
        if wild:
            if rng.random() < 0.3:
                o['long'] = rng.choice(LONGS_MW)
            if rng.random() < 0.2:
                o['short'] = rng.choice(['f', 'k', 'v', '', 'fk', ':', '-'])
            if rng.random() < 0.15:
                o['n'] = rng.randint(1, n)
            if rng.random() < 0.15:
                o['default'] = rng.choice([None, 'str', ['l'], 3])
            if rng.random() < 0.2:
                o['inverse'] = rng.choice(['no-' + o['long'], 'inv', 'alpha'])
        pool.append(o)
    return pool


def clean_tok(s):
    """a value written as a token of its own after the sub-command name must survive process_args"""
    s = s.replace('=', 'q')
    return s if s else 'ee'


def gen_assign(rng, o, clean):
    """(assignment, tokens) for option o"""
    if o['ty'] == 'bool':
        flagval = rng.random() < 0.6 or not o['inverse']
        return (o['n'], flagval), render_assignment(rng, [], o, None, flagval)
    sv = valid_string(rng, o, True)
    if clean:
        sv = clean_tok(sv)
        if o['choices']:
            sv = rng.choice(o['choices'])
    return (o['n'], sv), render_assignment(rng, [], o, sv, None)


def gen_main_case(rng, base, inject=None):
    pool = gen_pool(rng, rng.randint(3, 8))
    nl = rng.randint(1, min(3, len(pool) - 1))
    lspec, rest = pool[:nl], pool[nl:]
    cmds = [dict(name=nm, task=(nm != 'cb'), spec=[]) for nm in CMD_NAMES]
    for o in rest:
        rng.choice(cmds)['spec'].append(o)
    mode = rng.choice(['explicit', 'explicit', 'explicit', 'implicit', 'fallback'])
    if inject in ('pre-list', 'cfg-ill-typed', 'env-ill-typed', 'post-unknown', 'post-ill-typed'):
        mode = 'explicit'
    exname = rng.choice(CMD_NAMES) if mode == 'explicit' else 'run'
    ex = next(cm for cm in cmds if cm['name'] == exname)
    ex_opts = (lspec + ex['spec']) if ex['task'] else list(ex['spec'])
    usable = lambda os_: [o for o in os_ if o['short'] or o['long']]
    pre, pre_toks, post, post_toks = [], [], [], []
    pre_cands = [o for o in usable(lspec) if o['ty'] != 'list']
    if mode != 'fallback':
        for _ in range(rng.choice([0, 1, 1, 2, 3])):
            if pre_cands:
                a, toks = gen_assign(rng, rng.choice(pre_cands), False)
                pre.append(a)
                pre_toks += toks
    if mode == 'explicit':
        for _ in range(rng.choice([0, 0, 1, 2, 3])):
            if usable(ex_opts):
                a, toks = gen_assign(rng, rng.choice(usable(ex_opts)), True)
                post.append(a)
                post_toks += toks
    elif mode == 'fallback':
        # implicit `run`: an option only the command knows stands among the options of the loader -> pass 1 gives up
        own = [o for o in usable(ex['spec'])]
        if not own:
            mode = 'implicit'
        else:
            seq = [rng.choice(usable(lspec)) for _ in range(rng.randint(0, 2)) if usable(lspec)] + [rng.choice(own)]
            seq += [rng.choice(usable(ex_opts)) for _ in range(rng.randint(0, 2))]
            rng.shuffle(seq)
            for o in seq:
                a, toks = gen_assign(rng, o, True)
                post.append(a)
                post_toks += toks
    pos = [rng.choice(['t1', 't2', 'x y', 't:3', 'T']) for _ in range(rng.randint(0, 2))]
    if mode != 'explicit' and pre and not pos and rng.random() < 0.5:
        pos = ['t1']
    if pos and rng.random() < 0.2:
        pos.append('-')
    tail, nvars = [], 0
    for p_ in pos:
        if rng.random() < 0.15:
            nvars += 1
            tail.append('v%d=%s' % (nvars, rng.choice(['1', 'a=b', '', 'x y'])))
        tail.append(p_)
    config, env, dodo = {}, [], []
    for o in lspec + [o for cm in cmds for o in cm['spec']]:
        for sec in ['GLOBAL'] + CMD_NAMES:
            if rng.random() < (0.3 if sec == 'GLOBAL' else 0.12):
                s_ = valid_string(rng, o, False)
                config.setdefault(sec, []).append((o['n'], s_ if rng.random() < 0.8 else ref_convert(o['ty'], s_)))
        if o['env'] and rng.random() < 0.5:
            env.append((o['env'], valid_string(rng, o, False)))
        if rng.random() < 0.3:
            dodo.append((o['n'], ref_convert(o['ty'], valid_string(rng, o, False))))
    if rng.random() < 0.2:
        dodo.append((40, 'extra'))
    argv = pre_toks + ([ex['name']] if mode == 'explicit' else []) + post_toks + tail
    if mode == 'fallback' and pre_toks:
        raise AssertionError
    c = dict(part='main', kind='main-wf:' + mode, base=base, lspec=lspec, cmds=cmds, config=sorted(config.items(), key=lambda kv: rng.random()),
             env=env, dodo=dodo, argv=argv, pre=pre, post=post, pos=pos, exec=ex['name'], mode=mode)
    if inject == 'pre-list':
        lo = dict(n=30, ty='list', default=rng.choice([[], ['d']]), short='L', long='lst', inverse='', choices=[], env=0)
        c['lspec'] = lspec + [lo]
        v = rng.choice(['a', 'xy'])
        c.update(kind='main-bad:pre-list', argv=rng.choice([['-L', v], ['--lst=' + v], ['--lst', v]]) + argv, pre_list=(30, v))
    elif inject == 'empty-arg':
        c.update(kind='main-bad:empty-arg', argv=argv + [''], pos=pos + [''])
    elif inject == 'cfg-ill-typed':
        cands = [o for o in ex_opts if invalid_string(rng, o, False) is not None]
        if cands:
            o = rng.choice(cands)
            sec = rng.choice(['GLOBAL', ex['name']])
            cfg = dict(c['config'])
            cfg[sec] = [(k, v) for k, v in cfg.get(sec, []) if k != o['n']] + [(o['n'], invalid_string(rng, o, False))]
            if sec == 'GLOBAL':      # the section of the command must not repair it
                cfg[ex['name']] = [(k, v) for k, v in cfg.get(ex['name'], []) if k != o['n']]
            c.update(kind='main-bad:cfg-ill-typed', config=list(cfg.items()), bad_task=ex['task'])
    elif inject == 'env-ill-typed':
        cands = [o for o in ex_opts if invalid_string(rng, o, False) is not None]
        if cands:
            o = rng.choice(cands)
            if not o['env']:
                o['env'] = 10 + o['n']
            c.update(kind='main-bad:env-ill-typed', env=[(k, v) for k, v in env if k != o['env']] + [(o['env'], invalid_string(rng, o, False))])
    elif inject in ('post-unknown', 'post-ill-typed'):
        if inject == 'post-unknown':
            bad = [rng.choice(['-Z', '--zz-unknown', '--zeta=1'])]
        else:
            cands = [o for o in usable(ex_opts) if o['ty'] != 'bool' and invalid_string(rng, o) is not None and
                     not (o['ty'] == 'list' and not o['choices'])]
            bad = None
            if cands:
                o = rng.choice(cands)
                iv = invalid_string(rng, o)
                bad = ['--%s=%s' % (o['long'], iv)] if o['long'] else (['-' + o['short'] + iv] if iv else None)
        if bad and mode == 'explicit':
            c.update(kind='main-bad:' + inject, argv=pre_toks + [ex['name']] + post_toks + bad + tail)
    return c


def gen_main_wild(rng, base, nargv=1):
    pool = gen_pool(rng, rng.randint(1, 6), wild=True)
    nl = rng.randint(0, min(3, len(pool)))
    lspec, rest = pool[:nl], pool[nl:]
    cmds = [dict(name=nm, task=(nm != 'cb'), spec=[]) for nm in CMD_NAMES]
    for o in rest:
        rng.choice(cmds)['spec'].append(o)
        if rng.random() < 0.15:
            rng.choice(cmds)['spec'].append(o)
    if rng.random() < 0.05:
        cmds = [cm for cm in cmds if cm['name'] != 'run']
    sval = lambda: rng.choice(['1', 'yes', 'a,b', 'x', '', ' 7', 'bc', 'off', 'a', '-2', 'a=b', 'x y'])

    def tok():
        r = rng.random()
        if pool and r < 0.55:
            o = rng.choice(pool)
            return rng.choice(['-' + o['short'], '-' + o['short'] + sval(), '--' + o['long'], '--' + o['long'] + '=' + sval(),
                               '--' + o['inverse'], '--' + o['long'][:2], '-' + o['short'] + rng.choice(pool)['short'], sval()])
        if r < 0.75:
            return rng.choice(CMD_NAMES + ['t1', 'help'])
        return rng.choice(['-', '--', '', '---', '-=', '--=', 'a', '1', 'x y', '-1', 'v=1', 'v=', '=v', '-v=1', 'yes', '- a', '-h', 't=u=w'])
    argv = [tok() for _ in range(rng.randint(0, 7))]
    if argv and argv[0] in ('--version', '--help'):
        argv = argv[1:]
    more = [[tok() for _ in range(rng.randint(0, 5))] for _ in range(nargv - 1)]        # part seq: nargv > 1
    tval = lambda: rng.choice([None, True, False, 3, ['q'], [], sval(), sval()])
    config = []
    for sec in ['GLOBAL'] + CMD_NAMES:
        if rng.random() < 0.35:
            config.append((sec, list(dict((rng.randint(1, 7), tval()) for _ in range(rng.randint(1, 2))).items())))
    rng.shuffle(config)
    dodo = list(dict((rng.randint(1, 7), tval()) for _ in range(rng.choice([0, 0, 1, 2]))).items())
    env = [(k, sval()) for k in range(11, 17) if rng.random() < 0.2]
    c = dict(part='main', kind='main-wild', base=base, lspec=lspec, cmds=cmds, config=config, env=env, dodo=dodo, argv=argv)
    if nargv > 1:
        c['argvs'] = [argv] + more
    return c


# ------------------------------------------------------------------ the precedence rule, judged on the implementation alone
def sources_of(c, k, cfg_items):
    src = []
    if any(k_ == k for k_, _ in c.get('pre', [])):
        src.append('pre')
    if any(k_ == k for k_, _ in c.get('post', [])):
        src.append('post')
    byenv = {o['env']: o['n'] for o in c.get('all_opts', []) if o['env']}
    if any(byenv.get(e) == k for e, _ in c['env']):
        src.append('env')
    if any(k_ == k for k_, _ in c.get('dodo', [])):
        src.append('doit-config')
    if any(k_ == k for k_, _ in cfg_items):
        src.append('config')
    return src


def expected_two_pass(opts, cfg_items, env, pre, pre_opts, post, dodo, task):
    """(params handed to execute, params after DOIT_CONFIG, keys the command line / environment set), from the
    written assignment alone.  cfg_items: GLOBAL entries followed by the entries of the section of the command"""
    byn = {o['n']: o for o in opts}
    envd = dict(env)
    cfgd = {}
    for k, v in cfg_items:
        cfgd[k] = v
    vals, fixed = {}, set()
    for o in opts:
        v = copy.deepcopy(o['default'])
        if o['n'] in cfgd:
            cv = cfgd[o['n']]
            v = ref_convert(o['ty'], cv) if isinstance(cv, str) else cv
        if o['env'] and o['env'] in envd:
            v = ref_convert(o['ty'], envd[o['env']])
            fixed.add(o['n'])
        vals[o['n']] = v
    for k, a in post:
        o = byn[k]
        if o['ty'] == 'bool':
            vals[k] = a
        elif o['ty'] == 'list':
            vals[k] = vals[k] + [a]
        else:
            vals[k] = ref_convert(o['ty'], a)
        fixed.add(k)
    pren = {o['n']: o for o in pre_opts}
    for k, a in pre:                                   # written before the sub-command name: beats everything
        o = pren[k]
        vals[k] = a if o['ty'] == 'bool' else ref_convert(o['ty'], a)
        fixed.add(k)
    setup = dict(vals)
    final = dict(vals)
    if task:
        for k, v in dodo:
            if k not in fixed:
                final[k] = v
    return setup, final, fixed


def first_diff(exp, got):
    for k in sorted(set(exp) | set(got)):
        if k not in exp or k not in got or exp[k] != got[k]:
            return k
    return None


def judge_main(c, runs, out, slim=None):
    if slim is None:
        slim = {k: c[k] for k in ('part', 'kind', 'lspec', 'cmds', 'config', 'env', 'dodo', 'argv')}
    obs, rec = runs[0]
    if len(runs) > 1 and runs[1][0] != obs:
        out.violations.append(dict(what='DoitMain.run on the same command line twice (one DoitMain object) gave different results',
                                   shape='main-run-twice', case=slim))
    kind = c['kind']
    if kind.startswith('main-wf'):
        ex = next(cm for cm in c['cmds'] if cm['name'] == c['exec'])
        opts = (c['base'] + c['lspec'] + ex['spec']) if ex['task'] else list(ex['spec'])
        cfgd = dict(c['config'])
        cfg_items = cfgd.get('GLOBAL', []) + cfgd.get(ex['name'], [])
        c['all_opts'] = c['lspec'] + [o for cm in c['cmds'] for o in cm['spec']]
        setup, final, fixed = expected_two_pass(opts, cfg_items, c['env'], c['pre'], c['lspec'], c['post'], c['dodo'], ex['task'])
        for k in set(k_ for k_, _ in c['pre']):
            src = sources_of(c, k, cfg_items)
            if len(src) > 1:
                out.count('conflict:' + '+'.join(src))
        if obs[0] != 0:
            out.violations.append(dict(what='a well-formed command line / environment / configuration was rejected (outcome %s): doit %s' % (obs[0], ' '.join(c['argv'])),
                                       shape='main-wf-rejected', case=slim))
            return
        if rec.get('cmd') != c['exec']:
            out.violations.append(dict(what='command %r executed, expected %r' % (rec.get('cmd'), c['exec']), shape='main-wrong-command', case=slim))
            return
        if rec['pos'] != c['pos']:
            out.violations.append(dict(what='positional arguments not handed over unchanged (expected %r, got %r)' % (c['pos'], rec['pos']),
                                       shape='main-positional', case=slim))
        got = {knum(k): v for k, v in rec['setup'][0]}
        k = first_diff(setup, got)
        if k is not None:
            src = sources_of(c, k, cfg_items)
            out.violations.append(dict(
                what='option %s handed to the command: expected %r, got %r; sources for it: %s (precedence: command line before the sub-command name > '
                     'after it > environment > config > default): doit %s' % (kname(k), setup.get(k), got.get(k), src, ' '.join(c['argv'])),
                shape='two-pass-precedence:' + '+'.join(s_ for s_ in src if s_ != 'doit-config'), case=slim))
            return
        gotf = {knum(k): v for k, v in rec['final'][0]}
        k = first_diff(final, gotf)
        if k is not None:
            src = sources_of(c, k, cfg_items)
            pre_only = 'pre' in src and 'post' not in src and 'env' not in src and 'doit-config' in src
            out.violations.append(dict(
                what='option %s after DOIT_CONFIG was merged: expected %r, got %r; sources for it: %s: doit %s' % (
                    kname(k), final.get(k), gotf.get(k), src, ' '.join(c['argv'])),
                shape='pre-cmdline-overridden-by-doit-config' if pre_only else 'two-pass-doit-config:' + '+'.join(src), case=slim))
    elif kind == 'main-bad:pre-list':
        if obs[0] != 0:
            out.violations.append(dict(what='a list option of the loader written before the sub-command name: outcome %s (98 = an exception left DoitMain.run): doit %s' % (
                obs[0], ' '.join(c['argv'])), shape='pre-list-option-keyerror' if obs[0] == 98 else 'list-option-before-name-rejected', case=slim))
        else:
            got = {knum(k): v for k, v in rec['setup'][0]}
            k, v = c['pre_list']
            if not (isinstance(got.get(k), list) and got[k] and got[k][-1] == v):
                out.violations.append(dict(what='list option written before the sub-command name lost: %r' % (got.get(k),), shape='list-option-before-name-lost', case=slim))
    elif kind == 'main-bad:empty-arg':
        if obs[0] == 98:
            out.violations.append(dict(what='an empty positional argument makes DoitMain.run raise (IndexError in process_args): doit %s' % ' '.join(repr(a) for a in c['argv']),
                                       shape='empty-argument-indexerror', case=slim))
        elif obs[0] == 0 and rec['pos'] != c['pos']:
            out.violations.append(dict(what='positional arguments not handed over unchanged (expected %r, got %r)' % (c['pos'], rec['pos']),
                                       shape='main-positional', case=slim))
    elif kind.startswith('main-bad:'):
        if obs[0] != 3:
            sid = 'main-not-rejected:' + kind[9:]
            if kind == 'main-bad:cfg-ill-typed' and obs[0] == 98:
                sid = 'config-error-escapes-run'
            out.violations.append(dict(what='%s: expected exit code 3, outcome %s (98 = an exception left DoitMain.run): doit %s' % (kind[9:], obs[0], ' '.join(c['argv'])),
                                       shape=sid, case=slim))


def part_main(ctx, out):
    rng = ctx.rng
    base = base_spec()
    cases = []
    kinds = ['pre-list', 'empty-arg', 'cfg-ill-typed', 'env-ill-typed', 'post-unknown', 'post-ill-typed']
    plan = [('wf', ctx.n(150, 2000)), ('bad', ctx.n(50, 600)), ('wild', ctx.n(130, 1800))]
    special = 0
    for what, n in plan:
        for i in range(n):
            if what == 'wf':
                c = gen_main_case(rng, base)
                if i % 40 == 7:                      # `--version` / `--help` first: no command runs
                    c['argv'] = [rng.choice(['--version', '--help'])] + c['argv']
                    c['kind'] = 'main-special'
                    special += 1
            elif what == 'bad':
                c = gen_main_case(rng, base, inject=kinds[i % len(kinds)])
            else:
                c = gen_main_wild(rng, base)
            check_int_oracle(dict(env=c['env'], cfg=[kv for _, items in c['config'] for kv in items], argv=c['argv']), out)
            try:
                runs = run_main_impl(c, times=2)
            except Exception:  # noqa
                runs = [([98], {}), ([98], {})]
            if c['kind'] == 'main-special':
                if runs[0][0][0] != 0:
                    out.violations.append(dict(what='doit %s did not return 0' % c['argv'][0], shape='main-special', case=dict(part='main', argv=c['argv'])))
            else:
                judge_main(c, runs, out)
            out.count('scenario:' + c['kind'])
            out.count('main-outcome:%s:%d' % (c['kind'].split(':')[0], runs[0][0][0]))
            out.nontrivial.add((c['kind'], tuple(c['argv']), tuple(c['env']), repr(c['config']), repr(c['dodo']),
                                tuple((o['ty'], o['short'], o['long']) for o in c['lspec'])))
            desc = {k: c[k] for k in ('part', 'kind', 'lspec', 'cmds', 'config', 'env', 'dodo', 'argv')}
            cases.append(dict(model=main_model(c), expected=runs[0][0], desc=desc))
            if c['kind'].startswith('main-wf') and c.get('pre') and c.get('post') and sum(1 for s_ in out.samples if 'loader_options' in s_) < 2:
                out.samples.append(dict(argv=c['argv'], loader_options=[(o['ty'], o['short'], o['long']) for o in c['lspec']], env=c['env'],
                                        config=c['config'], doit_config=c['dodo'], observed=runs[0][0]))
    out.extra['main_special_runs'] = special
    return cases


# ------------------------------------------------------------------ sequences on ONE DoitMain / one config object
SEQ_BASE_VALUES = {91: ['g.json', 'run.json', 'ca.json', 'cb.json', 'x.db', ''], 94: ['md5', 'timestamp']}


def plain_config(main):
    """the config object of a DoitMain as plain data"""
    return copy.deepcopy({sec: dict(vals) for sec, vals in main.config.items()})


def gen_seq_step(rng, lspec, cmds, name, mode):
    """one DoitMain.run: a well-formed command line for the command `name` (mode explicit: the name is written)"""
    ex = next(cm for cm in cmds if cm['name'] == name)
    ex_opts = (lspec + ex['spec']) if ex['task'] else list(ex['spec'])
    usable = [o for o in ex_opts if o['short'] or o['long']]
    pre, pre_toks, post, post_toks = [], [], [], []
    pre_cands = [o for o in lspec if (o['short'] or o['long']) and o['ty'] != 'list']
    if pre_cands and rng.random() < 0.25:
        a, toks = gen_assign(rng, rng.choice(pre_cands), False)
        pre.append(a)
        pre_toks += toks
    if mode == 'explicit' and usable:
        for _ in range(rng.choice([0, 0, 0, 1, 2])):
            a, toks = gen_assign(rng, rng.choice(usable), True)
            post.append(a)
            post_toks += toks
    pos = [rng.choice(['t1', 't2', 'x y']) for _ in range(rng.choice([0, 0, 1]))]
    argv = pre_toks + ([name] if mode == 'explicit' else []) + post_toks + pos
    return dict(kind='run', argv=argv, pre=pre, post=post, pos=pos, exec=name, mode=mode)


def gen_seq_case(rng, base):
    """well-formed: the commands SHARE options, GLOBAL and the sections of the commands disagree about them"""
    pool = gen_pool(rng, rng.randint(3, 7))
    nl = rng.randint(1, 2)
    lspec, rest = pool[:nl], pool[nl:]                     # options of the loader: shared by the task commands run, ca
    cmds = [dict(name=nm, task=(nm != 'cb'), spec=[]) for nm in CMD_NAMES]
    for o in rest:                                         # one option definition in the cmd_options of 1..3 commands
        for cm in rng.sample(cmds, rng.choice([1, 2, 2, 3])):
            cm['spec'].append(o)
    for cm in cmds:
        cm['spec'].sort(key=lambda o: o['n'])
    byn = {o['n']: o for o in base if o['n'] in SEQ_BASE_VALUES}
    byn.update((o['n'], o) for o in pool)
    config, env, dodo = {}, [], []
    for n_, o in sorted(byn.items()):
        used = []
        for sec in ['GLOBAL'] + CMD_NAMES:                 # also sections of commands that do not have the option
            if rng.random() < (0.55 if sec == 'GLOBAL' else 0.4):
                for _ in range(4):                         # the sections should disagree
                    s_ = rng.choice(SEQ_BASE_VALUES[n_]) if n_ in SEQ_BASE_VALUES else valid_string(rng, o, False)
                    v = s_ if rng.random() < 0.8 else ref_convert(o['ty'], s_)
                    if ref_convert(o['ty'], s_) not in used:
                        break
                used.append(ref_convert(o['ty'], s_))
                config.setdefault(sec, []).append((n_, v))
        if o['env'] and rng.random() < 0.25:
            env.append((o['env'], valid_string(rng, o, False)))
        if n_ not in SEQ_BASE_VALUES and rng.random() < 0.2:
            dodo.append((n_, ref_convert(o['ty'], valid_string(rng, o, False))))
    nsteps = rng.choice([2, 2, 3, 3, 4])
    shape = rng.choice(['different', 'different', 'different', 'same', 'free'])
    names = [rng.choice(CMD_NAMES) for _ in range(nsteps)]
    if shape == 'same':
        names = [names[0]] * nsteps
    elif shape == 'different':
        while len(set(names)) < 2:
            names[rng.randrange(nsteps)] = rng.choice(CMD_NAMES)
    steps = []
    for i, nm in enumerate(names):
        if rng.random() < 0.15 and i < nsteps - 1:        # only built: what help / tabcompletion do
            steps.append(dict(kind='build', name=nm))
        else:
            steps.append(gen_seq_step(rng, lspec, cmds, nm, 'implicit' if (nm == 'run' and rng.random() < 0.25) else 'explicit'))
    return dict(part='seq', kind='seq-wf:' + shape, base=base, lspec=lspec, cmds=cmds, config=sorted(config.items(), key=lambda kv: rng.random()),
                env=env, dodo=dodo, steps=steps)


def gen_seq_wild(rng, base):
    nsteps = rng.choice([2, 2, 3, 4])
    c = gen_main_wild(rng, base, nargv=nsteps)
    steps = [dict(kind='run', argv=a) for a in c.pop('argvs')]
    for st in steps:
        if rng.random() < 0.3:                             # make sure commands are named
            st['argv'] = [rng.choice(CMD_NAMES)] + st['argv']
        if rng.random() < 0.12:
            st.clear()
            st.update(kind='build', name=rng.choice(CMD_NAMES + ['nocmd']))
    del c['argv']
    c.update(part='seq', kind='seq-wild', steps=steps)
    return c


def run_seq_steps(c, steps):
    """the steps on ONE DoitMain -> (list of (obs, rec), config as plain data before, after each step)"""
    from doit import doit_cmd
    from doit.globals import Globals
    from doit.action import CmdAction
    from doit.cmd_base import get_loader
    from doit.cmdparse import CmdParseError
    res, confs = [], []
    saved = (Globals.dep_manager, CmdAction.STRING_FORMAT, doit_cmd._CMDLINE_VARS)
    try:
        rec = {}
        with Environ(c['env']):
            try:
                main = build_main(c, rec)
                confs.append(plain_config(main))
            except Exception:  # noqa
                return [([98], {})] * len(steps), []
            for st in steps:
                if st['kind'] == 'run':
                    res.append(one_main_run(main, rec, st['argv']))
                else:
                    try:
                        sub_cmds = main.get_cmds()
                        if st['name'] not in sub_cmds:
                            obs = [97]
                        else:
                            loader = get_loader(main.config, main.task_loader, sub_cmds)
                            buf = io.StringIO()
                            with contextlib.redirect_stdout(buf), contextlib.redirect_stderr(buf):
                                cmd = sub_cmds.get_plugin(st['name'])(task_loader=loader, config=main.config, bin_name='doit', cmds=sub_cmds)
                                obs = [0] + zdefaults(cmd.cmdparser)
                    except CmdParseError:
                        obs = [3]
                    except Exception:  # noqa
                        obs = [98]
                    res.append((obs, {}))
                try:
                    confs.append(plain_config(main))
                except Exception:  # noqa
                    confs.append(None)
    finally:
        Globals.dep_manager, CmdAction.STRING_FORMAT, doit_cmd._CMDLINE_VARS = saved
    return res, confs


def seq_model(c):
    steps = clist(('SRun %s' % clist(cstr(a) for a in st['argv'])) if st['kind'] == 'run' else ('SBuild %s' % cstr(st['name'])) for st in c['steps'])
    return 'seq_scenario %s %s %s %s' % (ccli(c), clist('(%d%%N, %s)' % (k, cstr(v)) for k, v in c['env']), ckv(c['dodo']), steps)


def step_text(st):
    return ('doit ' + ' '.join(st['argv'])) if st['kind'] == 'run' else ('build command %s' % st['name'])


def judge_seq(c, res, confs, alone, out):
    slim = {k: c[k] for k in ('part', 'kind', 'lspec', 'cmds', 'config', 'env', 'dodo', 'steps')}
    text = '; '.join(step_text(st) for st in c['steps'])
    # purity 1: the config object is what it was before the sequence
    for i in range(1, len(confs)):
        if confs[i] != confs[0]:
            changed = sorted(sec for sec in set(confs[0]) | set(confs[i] or {}) if (confs[i] or {}).get(sec) != confs[0].get(sec))
            out.violations.append(dict(
                what='the config object of DoitMain was modified by step %d (%s) of [%s]: section(s) %s: before %r, after %r' % (
                    i, step_text(c['steps'][i - 1]), text, changed, {s_: confs[0].get(s_) for s_ in changed},
                    {s_: (confs[i] or {}).get(s_) for s_ in changed}),
                shape='config-mutated', case=slim))
            break
    # purity 2: a step gives what it gives as the first step on a fresh DoitMain
    for i, (a, (obs, _)) in enumerate(zip(alone, res)):
        if a is not None and a != obs:
            out.violations.append(dict(
                what='step %d (%s) of [%s] on one DoitMain gives a different result than the same step alone on a fresh DoitMain '
                     '(encoded: in the sequence %s, alone %s)' % (i + 1, step_text(c['steps'][i]), text, obs, a),
                shape='seq-step-not-independent', case=slim))
            break
    # precedence on every run step, from the written assignment and the ORIGINAL configuration alone
    if c['kind'].startswith('seq-wf'):
        for i, (st, r) in enumerate(zip(c['steps'], res)):
            if st['kind'] != 'run':
                continue
            n0 = len(out.violations)
            judge_main(dict(c, **dict(st, kind='main-wf:' + st['mode'])), [r], out, slim=slim)
            for v in out.violations[n0:]:
                v['what'] = 'step %d of [%s] on one DoitMain: %s' % (i + 1, text, v['what'])
                v['shape'] = 'seq:' + v['shape']
            if len(out.violations) > n0:
                break


def part_seq(ctx, out):
    import random
    rng = random.Random(ctx.rng.random())
    base = base_spec()
    cases = []
    for what, n in (('wf', ctx.n(140, 1800)), ('wild', ctx.n(70, 900))):
        for _ in range(n):
            c = gen_seq_case(rng, base) if what == 'wf' else gen_seq_wild(rng, base)
            check_int_oracle(dict(env=c['env'], cfg=[kv for _, items in c['config'] for kv in items],
                                  argv=[a for st in c['steps'] if st['kind'] == 'run' for a in st['argv']]), out)
            try:
                res, confs = run_seq_steps(c, c['steps'])
                alone = [None] + [run_seq_steps(c, [st])[0][0][0] for st in c['steps'][1:]]
            except Exception:  # noqa
                res, confs, alone = [([98], {})] * len(c['steps']), [], []
            judge_seq(c, res, confs, alone, out)
            out.count('scenario:' + c['kind'])
            out.count('seq-steps:%d' % len(c['steps']))
            for st in c['steps']:
                out.count('seq-step:' + st['kind'])
            names = [st.get('exec') or st.get('name') for st in c['steps']]
            if c['kind'].startswith('seq-wf'):
                out.count('seq-commands:%s' % ('one' if len(set(names)) == 1 else 'several'))
            for (obs, _) in res:
                out.count('seq-outcome:%s:%d' % (c['kind'].split(':')[0], obs[0]))
            out.nontrivial.add((c['kind'], repr([(st['kind'], st.get('name'), tuple(st.get('argv', ()))) for st in c['steps']]),
                                tuple(c['env']), repr(c['config']), repr(c['dodo'])))
            expected = []
            for obs, _ in res:
                expected += [-1] + obs
            desc = {k: c[k] for k in ('part', 'kind', 'lspec', 'cmds', 'config', 'env', 'dodo', 'steps')}
            cases.append(dict(model=seq_model(c), expected=expected, desc=desc))
            if c['kind'].startswith('seq-wf') and len(set(names)) > 1 and sum(1 for s_ in out.samples if 'sequence' in s_) < 2:
                out.samples.append(dict(sequence=[step_text(st) for st in c['steps']], config=c['config'], env=c['env'],
                                        shared_options=[o['n'] for o in c['lspec']] + sorted(set(
                                            o['n'] for cm in c['cmds'] for o in cm['spec'] if sum(o in c2['spec'] for c2 in c['cmds']) > 1)),
                                        observed=[obs for obs, _ in res]))
    return cases


# ------------------------------------------------------------------ Command.parse_execute on one command object
def run_pe_impl(c):
    from doit.cmd_base import Command
    from doit.cmdparse import CmdParseError

    class Rec(Command):
        name = 'rec'
        cmd_options = tuple(opt_dict(o) for o in c['spec'])

        @staticmethod
        def execute(params, args):
            return params, args
    det = {'parses': []}
    obs = []
    with Environ(c['env']):
        cmd = Rec(config={'GLOBAL': {kname(k): copy.deepcopy(v) for k, v in c['cfg']}},
                  opt_vals={kname(k): copy.deepcopy(v) for k, v in c['ov']})
        try:
            p = cmd.cmdparser
            o1 = 0
        except CmdParseError:
            o1 = 3
        except Exception:  # noqa
            o1 = 98
        if o1 != 0:
            # Command.cmdparser stores the parser before overwrite_defaults raises: the options reached keep their new default
            return [o1] + zdefaults(cmd._cmdparser), det
        obs += [o1] + zdefaults(p)
        for _ in range(2):
            before = zdefaults(cmd.cmdparser)
            try:
                params, args = cmd.parse_execute(list(c['argv']))
                r = 0
            except CmdParseError:
                r, params, args = 3, None, None
            except Exception:  # noqa
                r, params, args = 98, None, None
            enc = [r]
            if r == 0:
                enc += zparams(params) + [len(args)]
                for a in args:
                    enc += zstr(a)
            after = zdefaults(cmd.cmdparser)
            obs += enc + after
            det['parses'].append(dict(outcome=r, enc=enc, before=before, after=after,
                                      params=copy.deepcopy(dict(params)) if r == 0 else None, args=list(args) if r == 0 else None,
                                      nd=set(getattr(params, '_non_default_keys', set())) if r == 0 else None))
    return obs, det


def gen_pe_case(rng, wild=False):
    c = gen_wf_case(rng) if not wild else gen_wild_case(rng)
    spec = c['spec']
    ov = []
    for o in spec:
        if rng.random() < 0.4 and (wild or o['ty'] != 'list'):
            ov.append((o['n'], ref_convert(o['ty'], valid_string(rng, o, False)) if not wild else rng.choice([True, 3, 'x', ['q'], None, 'yes', 'a,b'])))
    if rng.random() < 0.25:
        ov.append((8, 'other'))                    # an option of the loader that the command does not have
    ov = list(dict(ov).items())
    c.update(part='pe', kind='pe-wild' if wild else 'pe-wf', ov=ov, dodo=[])
    return c


def judge_pe(c, det, out):
    slim = {k: c[k] for k in ('part', 'kind', 'spec', 'cfg', 'ov', 'env', 'argv')}
    ps = det['parses']
    if len(ps) == 2:
        if ps[0]['enc'] != ps[1]['enc']:
            out.violations.append(dict(what='Command.parse_execute twice on one command object gave different results', shape='parse-execute-twice', case=slim))
        if ps[0]['before'] != ps[0]['after'] or ps[1]['before'] != ps[1]['after']:
            out.violations.append(dict(what='Command.parse_execute changed the default of an option of the parser of the command',
                                       shape='parse-execute-mutates-default', case=slim))
    if c['kind'] != 'pe-wf':
        return
    if not ps or ps[0]['outcome'] != 0:
        out.violations.append(dict(what='a well-formed command line / environment / configuration / opt_vals was rejected', shape='pe-wf-rejected', case=slim))
        return
    post = c['assigns']
    pre_opts = [dict(n=k, ty='bool') for k, _ in c['ov']]     # opt_vals hold typed values: taken as they are
    pre = [(k, v) for k, v in c['ov']]
    setup, _, _ = expected_two_pass(c['spec'], c['cfg'], c['env'], [], [], post, [], False)
    for k, v in pre:
        setup[k] = v
    got = {int(k[1:]): v for k, v in ps[0]['params'].items()}
    k = first_diff(setup, got)
    if k is not None:
        c2 = dict(c, pre=pre, post=post, all_opts=c['spec'])
        src = sources_of(c2, k, c['cfg'])
        out.violations.append(dict(what='option o%s handed to execute: expected %r, got %r; sources for it: %s (opt_vals = command line before the sub-command name)' % (
            k, setup.get(k), got.get(k), src), shape='two-pass-precedence:' + '+'.join(src), case=slim))
    if ps[0]['args'] != c['pos']:
        out.violations.append(dict(what='positional arguments not handed over unchanged', shape='pe-positional', case=slim))


def part_pe(ctx, out):
    rng = ctx.rng
    cases = []
    for what, n in (('wf', ctx.n(110, 1500)), ('wild', ctx.n(60, 900))):
        for _ in range(n):
            c = gen_pe_case(rng, wild=(what == 'wild'))
            check_int_oracle(c, out)
            try:
                obs, det = run_pe_impl(c)
            except Exception:  # noqa
                obs, det = [98], {'parses': []}
            if det['parses']:
                judge_pe(c, det, out)
            else:
                out.count('pe:config-rejected')
            out.count('scenario:' + c['kind'])
            out.nontrivial.add((c['kind'], tuple(c['argv']), repr(c['ov']), tuple(c['env']), repr(c['cfg'])))
            model = 'pe_scenario false %s %s %s %s %s' % (clist(copt(o) for o in c['spec']), ckv(c['cfg']), ckv(c['ov']),
                                                          clist('(%d%%N, %s)' % (k, cstr(v)) for k, v in c['env']), clist(cstr(a) for a in c['argv']))
            cases.append(dict(model=model, expected=obs, desc={k: c[k] for k in ('part', 'kind', 'spec', 'cfg', 'ov', 'env', 'argv')}))
    return cases


# ------------------------------------------------------------------ process_args alone
def part_vars(ctx, out):
    from doit import doit_cmd
    from doit.doit_cmd import DoitMain
    rng = ctx.rng
    cases = []
    saved = doit_cmd._CMDLINE_VARS
    try:
        for _ in range(ctx.n(60, 800)):
            names = rng.sample(['a', 'b', 'v1', 'x y', 'T', '1'], 4)
            toks = []
            for _ in range(rng.randint(0, 6)):
                r = rng.random()
                if r < 0.3 and names:
                    toks.append(names.pop() + '=' + rng.choice(['', '1', 'a=b', '=', 'x y', '-']))
                elif r < 0.36:
                    toks.append('')
                else:
                    toks.append(rng.choice(['-a=1', '--x=y', 't1', '-', '--', '=v', 'run', '-=', 'x y', '-f']))
            if toks.count('=v') > 1:
                toks = [t for t in toks if t != '=v'] + ['=v']
            try:
                rest = DoitMain(config_filenames=()).process_args(list(toks))
                vs = list(doit_cmd._CMDLINE_VARS.items())
                obs = [0, len(vs)]
                for n_, v_ in vs:
                    obs += zstr(n_) + zstr(v_)
                obs += [len(rest)]
                for a in rest:
                    obs += zstr(a)
            except Exception:  # noqa
                obs = [98]
            out.count('process_args:%s' % ('ok' if obs[0] == 0 else 'exception'))
            if toks:
                out.nontrivial.add(('vars', tuple(toks)))
            cases.append(dict(model='process_args_z %s' % clist(cstr(a) for a in toks), expected=obs, desc=dict(part='vars', kind='process_args', argv=toks)))
    finally:
        doit_cmd._CMDLINE_VARS = saved
    return cases


# ------------------------------------------------------------------ the real command line, in a sub-process
DODO_SRC = "def task_from_%s():\n    return {'actions': None}\n"
CLI_PRE = {'none': [], 'short': ['-f', 'a.py'], 'long': ['--file=a.py'], 'twice': ['-f', 'x.py', '-fa.py']}
CLI_POST = {'none': [], 'short': ['-f', 'b.py'], 'long': ['--file', 'b.py']}
CLI_CFG = {
    'none': {},
    'ini-global': {'doit.cfg': '[GLOBAL]\ndodoFile = g.py\n'},
    'ini-section': {'doit.cfg': '[GLOBAL]\ndodoFile = g.py\n[list]\ndodoFile = l.py\n'},
    'toml-global': {'pyproject.toml': '[tool.doit]\ndodoFile = "g.py"\n'},
    'toml-section': {'pyproject.toml': '[tool.doit]\ndodoFile = "g.py"\n[tool.doit.commands.list]\ndodoFile = "l.py"\n'},
}


def cli_expected(c):
    if c['pre'] != 'none':
        return 'a'
    if c['post'] != 'none':
        return 'b'
    if c['env']:
        return 'x'
    if c['cfg'].endswith('section'):
        return 'l'
    if c['cfg'].endswith('global'):
        return 'g'
    return 'dflt'


def run_cli_case(args):
    d, c = args
    os.makedirs(d, exist_ok=True)
    for tag in ('a', 'b', 'x', 'g', 'l', 'dflt'):
        with open(os.path.join(d, 'dodo.py' if tag == 'dflt' else tag + '.py'), 'w') as f:
            f.write(DODO_SRC % tag)
    for fn, txt in CLI_CFG[c['cfg']].items():
        with open(os.path.join(d, fn), 'w') as f:
            f.write(txt)
    env = {k: v for k, v in common.impl_env().items() if not k.startswith('DOIT_')}
    if c['env']:
        env['DOIT_FILE'] = 'x.py'
    argv = CLI_PRE[c['pre']] + ['list'] + CLI_POST[c['post']]
    try:
        p = subprocess.run([common.PY, '-m', 'doit'] + argv, cwd=d, env=env, stdout=subprocess.PIPE, stderr=subprocess.PIPE, text=True, timeout=120)
        return p.returncode, p.stdout.split(), p.stderr[-300:], argv
    except Exception as e:  # noqa
        return 98, [], repr(e), argv


def judge_cli(c, res, out):
    rc, listed, err, argv = res
    want = 'from_' + cli_expected(c)
    if rc != 0 or listed != [want]:
        src = [s_ for s_, on in (('pre', c['pre'] != 'none'), ('post', c['post'] != 'none'), ('env', c['env']), ('config', c['cfg'] != 'none')) if on]
        out.violations.append(dict(
            what='%sdoit %s (config: %s) listed %r (exit code %s), expected [%r]: precedence command line before the sub-command name > after it > '
                 'DOIT_FILE > config section > GLOBAL > default' % ('DOIT_FILE=x.py ' if c['env'] else '', ' '.join(argv), c['cfg'], listed, rc, want),
            shape='cli-dodo-file:' + '+'.join(src), case=dict(part='cli', **c)))


def part_cli(ctx, out):
    rng = ctx.rng
    allc = [dict(pre=a, post=b, env=e, cfg=g) for a in CLI_PRE for b in CLI_POST for e in (False, True) for g in CLI_CFG]
    if ctx.quick:
        must = [c for c in allc if c['pre'] != 'none' and c['env'] and c['post'] == 'none' and c['cfg'] == 'none'][:2]
        rest = [c for c in allc if c not in must]
        allc = must + rng.sample(rest, 22)
    root = ctx.subdir('cli')
    jobs = [(os.path.join(root, 'c%d' % i), c) for i, c in enumerate(allc)]
    with concurrent.futures.ThreadPoolExecutor(max_workers=min(8, common.NCPU)) as ex:
        results = list(ex.map(run_cli_case, jobs))
    for (d, c), res in zip(jobs, results):
        judge_cli(c, res, out)
        out.count('cli:%s' % ('ok' if res[0] == 0 else 'rc%s' % res[0]))
        out.nontrivial.add(('cli', c['pre'], c['post'], c['env'], c['cfg']))
    out.extra['cli_runs_oracle_only'] = len(jobs)
    return len(jobs)


def run(ctx):
    out = Outcome()
    out.rule = ('scenario cases: well-formed (spec, assignment rendered in every getopt form, env/config/DOIT_CONFIG filled), the same '
                'with one injected error per kind, and wild ones (ill-formed specs, token soup); getopt.getopt alone on random tables; '
                'abbreviated long options (specs whose long names are prefixes of each other: unique / exact-vs-prefix / ambiguous prefixes, '
                'with and without =VALUE, valued options, flags, inverse flags; every kind on every seed); '
                'Task.init_options; DoitMain.run with recording loader/commands (options of the loader before the sub-command name, config '
                'sections, environment, DOIT_CONFIG; well-formed, one injected error, wild); Command.parse_execute with opt_vals twice on one '
                'object; process_args; the real CLI in a sub-process (which dodo file is loaded); sequences of 2-4 steps (runs of different / '
                'the same command, commands only built) on ONE DoitMain whose commands share options that GLOBAL and the sections of the '
                'commands set differently (every step vs. the model on the original configuration, vs. the same step alone on a fresh '
                'DoitMain, config object vs. a deep copy).  non-trivial = distinct (kind, argv, option '
                'shapes, env, config) with a non-empty argv/env/config')
    cases = part_scenarios(ctx, out) + part_getopt(ctx, out) + part_abbrev(ctx, out) + part_task_options(ctx, out)
    cases += part_main(ctx, out) + part_pe(ctx, out) + part_vars(ctx, out)
    part_exit_code(ctx, out)
    ncli = part_cli(ctx, out)
    cases += part_seq(ctx, out)                      # last: draws from its own generator, the cases of the other parts stay as they were
    out.evaluations = len(cases) + out.extra.get('exit_code_runs_exercised_only', 0) + ncli
    bad = common.compare_with_model(ctx, PRE, cases)
    out.traces_validated = len(cases)
    for i, m in bad:
        out.mismatches.append(dict(case=cases[i]['desc'], impl=cases[i]['expected'], model=m))
    out.assumptions = [
        'option `type` callables other than bool/list/str (int, custom) are an oracle: conv : N -> string -> option value, None = ValueError; '
        'exceptions other than ValueError raised by a custom type are outside the model',
        'strings are byte strings; str.lower()/str.strip() are modelled for ASCII input (non-ASCII white space / case mapping not modelled)',
        'the mapping of CmdParseError to exit code 3 by DoitMain.run is exercised by the harness, not proved',
        'option values that are not None/bool/int/str/list-of-str (floats, tuples, dicts from TOML) are outside the model',
        'DoitMain.run is modelled up to the call of Command.execute (+ update_defaults of DoitCmdBase.execute); plugin commands/loaders named in '
        'the configuration, get_loader without an explicit task_loader, and reading INI/TOML files into sections (exercised by part cli only) are outside the model',
        'command line variables NAME=VALUE: the model returns them in order of occurrence; the harness generates distinct names per case',
    ]
    out.extra['trusted_base'] = ['encoding of Python values/dicts into the integer lists compared with the model (harness/c16.py zval/zparams)',
                                 'the recording TaskLoader2 / DoitCmdBase / Command subclasses of part main and pe (harness/c16.py build_main, run_pe_impl)',
                                 'the instance conv_ref of the type-conversion oracle used for evaluation (checked against int() on every generated string)']
    return out


def replay(ctx, payload):
    import json
    c = payload.get('case') or {}
    print(json.dumps(payload, indent=1, default=str)[:4000])
    tup = lambda xs: [tuple(x) for x in xs]
    if isinstance(c, dict) and c.get('part') == 'main' and 'lspec' in c:
        c = dict(c, base=base_spec(), env=tup(c.get('env', [])), dodo=tup(c.get('dodo', [])),
                 config=[(sec, tup(items)) for sec, items in c.get('config', [])])
        for i, (obs, rec) in enumerate(run_main_impl(c, times=2)):
            print('run %d: doit %s -> observed %s' % (i + 1, ' '.join(c['argv']), obs))
            print('   command=%s positional=%s\n   params at execute/setup=%s\n   params after DOIT_CONFIG=%s' % (
                rec.get('cmd'), rec.get('pos'), rec.get('setup'), rec.get('final')))
        return 0
    if isinstance(c, dict) and c.get('part') == 'seq':
        c = dict(c, base=base_spec(), env=tup(c.get('env', [])), dodo=tup(c.get('dodo', [])),
                 config=[(sec, tup(items)) for sec, items in c.get('config', [])])
        res, confs = run_seq_steps(c, c['steps'])
        print('config object before: %s' % (confs[0] if confs else None))
        for i, (st, (obs, rec)) in enumerate(zip(c['steps'], res)):
            a_obs, a_rec = run_seq_steps(c, [st])[0][0]
            print('step %d: %s -> observed %s' % (i + 1, step_text(st), obs))
            if st['kind'] == 'run':
                print('   command=%s positional=%s\n   params at execute/setup=%s\n   params after DOIT_CONFIG=%s' % (
                    rec.get('cmd'), rec.get('pos'), rec.get('setup'), rec.get('final')))
            if a_obs != obs:
                print('   DIFFERENT from the same step alone on a fresh DoitMain: %s\n   params at execute/setup=%s' % (a_obs, a_rec.get('setup')))
            if i + 1 < len(confs):
                print('   config object after the step: %s%s' % (confs[i + 1], '' if confs[i + 1] == confs[0] else '   <-- MODIFIED'))
        return 0
    if isinstance(c, dict) and c.get('part') == 'pe':
        c = dict(c, cfg=tup(c.get('cfg', [])), env=tup(c.get('env', [])), ov=tup(c.get('ov', [])))
        obs, det = run_pe_impl(c)
        print('observed now:', obs)
        for i, p in enumerate(det['parses']):
            print('parse_execute %d: outcome=%s params=%s args=%s' % (i + 1, p['outcome'], p['params'], p['args']))
        return 0
    if isinstance(c, dict) and c.get('part') == 'cli':
        d = ctx.subdir('replay-cli')
        cc = {k: c[k] for k in ('pre', 'post', 'env', 'cfg')}
        print('now:', run_cli_case((d, cc)), 'expected task: from_' + cli_expected(cc))
        return 0
    if isinstance(c, dict) and 'spec' in c and 'argv' in c:
        c = dict(c)
        c['cfg'] = [tuple(x) for x in c.get('cfg', [])]
        c['env'] = [tuple(x) for x in c.get('env', [])]
        c['dodo'] = [tuple(x) for x in c.get('dodo', [])]
        obs, det = run_impl(c)
        print('observed now:', obs)
        for i, p in enumerate(det['parses']):
            print('parse %d: outcome=%s params=%s args=%s' % (i + 1, p['outcome'], p['params'], p['args']))
    return 0
