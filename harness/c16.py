"""C16 -- option parsing is exact, pure and respects source precedence.

Correspondence: the real doit.cmdparse.CmdParse / TaskParse / CmdOption / DefaultUpdate (and
Task.init_options) and Python's getopt.getopt are run on generated inputs; what they return is
compared with Model/CmdParse.v evaluated inside Coq (`scenario`, `getopt`).

Scenario of one case (one parser object):
    p = CmdParse([CmdOption(d) for d in spec]); p.overwrite_defaults(cfg)
    r1 = p.parse(argv); r2 = p.parse(argv)      # os.environ patched for the case only
    r1[0].update_defaults(dodo)
Encoding (list of ints, same on both sides -- Model/CmdParse.v `scenario`):
    outcome   0 ok | 3 CmdParseError | 98 any other exception
    string    len, char codes                    value  None [0] | bool [1,b] | int [2,z] | str 3,string | list 4,n,strings
    defaults  value of every option default, in parser order
    params    n, then per item in dict order: key number, 1 if key in _non_default_keys, value
    case      = outcome(overwrite_defaults), defaults, then (if ok) twice: outcome(parse), [params, n_args, args], defaults;
                then params of r1 after update_defaults(dodo)
Option names are 'o<k>' <-> k, environment variables 'C16V_<k>' <-> k.  Strings are printable ASCII.
Generated specs: bool/int/str/list/even x short/long/inverse/env_var, choices on str AND on list options
(repair 424a4bf: every item of a list is validated; a regression shows up under the shape ids
`list-choices-cmdline-unvalidated` / `list-choices-typeerror`).
`type`: bool, list, str concretely; int and the custom callable `even` through the oracle instance
`conv_ref` of the model (the harness checks on every string of every case that its Python mirror
agrees with the real int()).
"""
import copy, getopt, os
import common
from common import Outcome

PRE = ('From DoitV Require Import Base CmdParse.\nOpen Scope string_scope.\nOpen Scope list_scope.\n')


def even(s):
    """custom option type: accepts strings of even length"""
    if len(s) % 2:
        raise ValueError('odd length %r' % (s,))
    return len(s) // 2


TYPES = {'bool': bool, 'list': list, 'str': str, 'int': int, 'even': even}
TY_COQ = {'bool': 'TBool', 'list': 'TList', 'str': 'TStr', 'int': 'TOther 0', 'even': 'TOther 1'}
BOOL_TABLE = {'1': True, 'yes': True, 'true': True, 'on': True, '0': False, 'no': False, 'false': False, 'off': False}
WS = '\t\n\x0b\x0c\r\x1c\x1d\x1e\x1f '


# ------------------------------------------------------------------ Coq rendering
def cstr(s):
    assert all(32 <= ord(c) < 127 for c in s), s
    return '"' + s.replace('"', '""') + '"'


def cval(v):
    if v is None:
        return 'VNone'
    if isinstance(v, bool):
        return 'VBool %s' % ('true' if v else 'false')
    if isinstance(v, int):
        return 'VInt (%d)%%Z' % v
    if isinstance(v, str):
        return 'VStr %s' % cstr(v)
    if isinstance(v, list):
        return 'VList [%s]' % '; '.join(cstr(x) for x in v)
    raise TypeError(v)


def clist(xs):
    return '[' + '; '.join(xs) + ']'


def copt(o):
    return 'mkopt %d%%N (%s) (%s) %s %s %s %s %s' % (
        o['n'], TY_COQ[o['ty']], cval(o['default']), cstr(o['short']), cstr(o['long']), cstr(o['inverse']),
        clist(cstr(c) for c in o['choices']), ('(Some %d%%N)' % o['env']) if o['env'] else 'None')


def ckv(kvs):
    return clist('(%d%%N, %s)' % (k, cval(v)) for k, v in kvs)


def case_model(c, legacy=False):
    return 'scenario %s %s %s %s %s %s' % (
        'true' if legacy else 'false', clist(copt(o) for o in c['spec']), ckv(c['cfg']),
        clist('(%d%%N, %s)' % (k, cstr(v)) for k, v in c['env']), clist(cstr(a) for a in c['argv']), ckv(c['dodo']))


# ------------------------------------------------------------------ encoding of observations
def zstr(s):
    return [len(s)] + [ord(ch) for ch in s]


def zval(v):
    if v is None:
        return [0]
    if isinstance(v, bool):
        return [1, int(v)]
    if isinstance(v, int):
        return [2, v]
    if isinstance(v, str):
        return [3] + zstr(v)
    if isinstance(v, list) and all(isinstance(x, str) for x in v):
        out = [4, len(v)]
        for x in v:
            out += zstr(x)
        return out
    return [97]


def zparams(d):
    nd = getattr(d, '_non_default_keys', set())
    out = [len(d)]
    for k, v in d.items():
        out += [int(k[1:]), int(k in nd)] + zval(v)
    return out


def zdefaults(p):
    out = []
    for o in p.options:
        out += zval(o.default)
    return out


def opt_dict(o):
    d = {'name': 'o%d' % o['n'], 'default': copy.deepcopy(o['default']), 'type': TYPES[o['ty']],
         'short': o['short'], 'long': o['long'], 'inverse': o['inverse'],
         'choices': [(c, '') for c in o['choices']]}
    if o['env']:
        d['env_var'] = 'C16V_%d' % o['env']
    return d


class Environ:
    """patch os.environ for one case only"""
    def __init__(self, env):
        self.env = env

    def __enter__(self):
        self.saved = {k: os.environ[k] for k in list(os.environ) if k.startswith('C16V_')}
        for k in self.saved:
            del os.environ[k]
        for k, v in self.env:
            os.environ['C16V_%d' % k] = v

    def __exit__(self, *a):
        for k in [k for k in os.environ if k.startswith('C16V_')]:
            del os.environ[k]
        os.environ.update(self.saved)


def run_impl(c):
    """the scenario on the real classes -> (encoded observation, details for the oracles)"""
    from doit.cmdparse import CmdOption, CmdParse, TaskParse, CmdParseError
    det = {'parses': []}
    obs = []
    cls = TaskParse if c.get('task') else CmdParse
    p = cls([CmdOption(opt_dict(o)) for o in c['spec']])
    try:
        p.overwrite_defaults({'o%d' % k: copy.deepcopy(v) for k, v in c['cfg']})
        o1 = 0
    except CmdParseError:
        o1 = 3
    except Exception:  # noqa
        o1 = 98
    obs += [o1] + zdefaults(p)
    det['overwrite'] = o1
    if o1 != 0:
        return obs, det
    first = None
    with Environ(c['env']):
        for i in range(2):
            before = zdefaults(p)
            try:
                params, args = p.parse(list(c['argv']))
                r = 0
            except CmdParseError:
                r, params, args = 3, None, None
            except Exception:  # noqa
                r, params, args = 98, None, None
            enc = [r]
            if r == 0:
                enc += zparams(params) + [len(args)]
                for a in args:
                    enc += zstr(a)
                if first is None:
                    first = params
            after = zdefaults(p)
            obs += enc + after
            det['parses'].append(dict(outcome=r, enc=enc, before=before, after=after,
                                      params=copy.deepcopy(dict(params)) if r == 0 else None,
                                      args=list(args) if r == 0 else None))
    if det['parses'][0]['outcome'] == 0:
        try:
            first.update_defaults({'o%d' % k: copy.deepcopy(v) for k, v in c['dodo']})
            obs += zparams(first)
            det['final'] = dict(first)
        except Exception:  # noqa
            obs += [98]
    return obs, det


# ------------------------------------------------------------------ reference conversions (oracle side; no doit code)
def int_simple(s):
    """mirror of Model/CmdParse.v int_simple"""
    t = s.strip(WS)
    if not t:
        return None
    neg = t[0] == '-'
    body = t[1:] if neg else t
    if not body or not all(ch in '0123456789' for ch in body):
        return None
    return -int(body) if neg else int(body)


def ref_convert(ty, s):
    """what the documentation says a string means for an option of this type; ValueError if ill-typed"""
    if ty == 'bool':
        if s.lower() not in BOOL_TABLE:
            raise ValueError(s)
        return BOOL_TABLE[s.lower()]
    if ty == 'list':
        return [x.strip() for x in s.split(',') if x.strip()]
    if ty == 'int':
        return int(s)
    if ty == 'even':
        return even(s)
    return s


def check_int_oracle(c, out):
    """every string (and suffix) that could reach int(): the Coq instance must agree with Python's int"""
    strs = set(v for _, v in c['env']) | set(v for _, v in c['cfg'] if isinstance(v, str))
    for a in c['argv']:
        for i in range(len(a) + 1):
            strs.add(a[i:])
    for s in strs:
        try:
            want = int(s)
        except ValueError:
            want = None
        if int_simple(s) != want:
            out.mismatches.append(dict(case='int oracle instance', impl=repr(s), model=str(int_simple(s))))


# ------------------------------------------------------------------ generators
VAL_ALPH = 'abc10xy-=, TeS'
SHORTS = 'abcdefgh'
LONGS = ['ab', 'abc', 'abd', 'b', 'ba', 'c-d', 'de', 'x', 'abcd', 'no']


def rstr(rng, lo=0, hi=4, alph=VAL_ALPH):
    return ''.join(rng.choice(alph) for _ in range(rng.randint(lo, hi)))


def valid_string(rng, o, cmdline):
    """a string an option of this type accepts"""
    ty = o['ty']
    if o['choices'] and ty == 'str':
        return rng.choice(o['choices'])
    if ty == 'int':
        s = str(rng.choice([0, 1, 7, 10, 42, 99, -1, -13]))
        return rng.choice([s, s, s, ' ' + s, s + ' '])
    if ty == 'even':
        return rstr(rng, 0, 2) * 2 if rng.random() < 0.5 else rng.choice(['', 'ab', '-a', 'abcd', '  '])
    if ty == 'bool':
        return rng.choice(['1', 'yes', 'Yes', 'TRUE', 'on', 'On', '0', 'no', 'NO', 'false', 'False', 'off'])
    if ty == 'list' and o['choices']:
        if cmdline:
            return rng.choice(o['choices'])
        return rng.choice(['', ',', o['choices'][0], ','.join(o['choices']), ' %s , ,%s' % (o['choices'][-1], o['choices'][0])])
    if ty == 'list' and not cmdline:
        return rng.choice(['a', 'a,b', ' a , ,b', '', ',', 'x, y ,', 'a,a', '-a,=b'])
    return rstr(rng)


def invalid_string(rng, o, cmdline=True):
    """a string an option of this type rejects (None if there is none)"""
    ty = o['ty']
    if o['choices'] and ty == 'list':
        if cmdline:      # one item, taken as it is
            return rng.choice(['zz', '', ','.join(o['choices']), ' ' + o['choices'][0]])
        return rng.choice(['zz', o['choices'][0] + ',zz', 'zz,' + o['choices'][0], 'a b'])
    if o['choices'] and ty == 'str':
        return rng.choice([s for s in ['zz', '', 'A', o['choices'][0] + ' '] if s not in o['choices']])
    if ty == 'int':
        return rng.choice(['x1', '', '1-', 'a', '--1', '1 1', '1,0', ' '])
    if ty == 'even':
        return rng.choice(['a', 'abc', ' ', '-', 'a=b'])
    if ty == 'bool':
        return rng.choice(['maybe', '', 'y', '2', 'tru', ' yes'])
    return None


def gen_default(rng, ty, choices):
    if ty == 'bool':
        return rng.choice([True, False])
    if ty == 'int' or ty == 'even':
        return rng.choice([0, 5, -3, None])
    if ty == 'list':
        return rng.choice([[], ['d'], ['d', 'e']]) if not choices else rng.choice([[], [choices[0]]])
    return rng.choice(['', 'dflt', None]) if not choices else choices[0]


def gen_wf_spec(rng):
    """distinct names, distinct one-letter shorts, distinct long/inverse names without '='"""
    n = rng.randint(1, 6)
    shorts = rng.sample(SHORTS, n)
    pool = rng.sample(LONGS, len(LONGS))
    spec = []
    for i in range(n):
        ty = rng.choice(['bool', 'bool', 'int', 'str', 'str', 'list', 'list', 'even'])
        choices = rng.choice([[], [], ['a', 'bc', 'x y']]) if ty == 'str' else (rng.choice([[], [], ['a', 'bc']]) if ty == 'list' else [])
        short = shorts[i] if rng.random() < 0.8 else ''
        long_ = pool.pop() if (rng.random() < 0.8 or not short) else ''
        inverse = ''
        if ty == 'bool' and long_ and rng.random() < 0.6:
            inverse = 'no-' + long_
        spec.append(dict(n=i + 1, ty=ty, default=gen_default(rng, ty, choices), short=short, long=long_,
                         inverse=inverse, choices=choices, env=(10 + i) if rng.random() < 0.5 else 0))
    return spec


def long_entries(spec):
    out = []
    for o in spec:
        if o['long']:
            out.append(o['long'] + ('' if o['ty'] == 'bool' else '='))
            if o['inverse']:
                out.append(o['inverse'])
    return out


def unique_prefixes(spec, name, takes_arg):
    """proper prefixes of a long name that getopt resolves to it"""
    entries = long_entries(spec)
    res = []
    for i in range(1, len(name)):
        p = name[:i]
        poss = [e for e in entries if e.startswith(p)]
        if p in poss or p + '=' in poss:
            continue
        if len(poss) == 1:
            res.append(p)
    return res


def render_assignment(rng, spec, o, sval, flagval):
    """tokens for one assignment; the forms getopt offers"""
    forms = []
    if o['ty'] == 'bool':
        if flagval:
            if o['short']:
                forms.append(['-' + o['short']])
            if o['long']:
                forms.append(['--' + o['long']])
                forms += [['--' + p] for p in unique_prefixes(spec, o['long'], False)[:1]]
        else:
            forms.append(['--' + o['inverse']])
    else:
        if o['short']:
            forms.append(['-' + o['short'], sval])
            if sval:
                forms.append(['-' + o['short'] + sval])
        if o['long']:
            forms.append(['--' + o['long'] + '=' + sval])
            forms.append(['--' + o['long'], sval])
            for p in unique_prefixes(spec, o['long'], True)[:1]:
                forms.append(['--' + p + '=' + sval])
    return rng.choice(forms)


def gen_wf_case(rng, inject=None):
    """class A: well-formed spec, every source filled from an assignment the oracle knows.
    inject = kind of a single error put on the command line / in the environment (class B)"""
    spec = gen_wf_spec(rng)
    cfg, env, dodo, assigns = [], [], [], []
    for o in spec:
        if rng.random() < 0.4:
            s = valid_string(rng, o, False)
            cfg.append((o['n'], s if rng.random() < 0.8 else ref_convert(o['ty'], s)))
        if o['env'] and rng.random() < 0.5:
            env.append((o['env'], valid_string(rng, o, False)))
        if rng.random() < 0.35:
            dodo.append((o['n'], ref_convert(o['ty'], valid_string(rng, o, False))))
    if rng.random() < 0.2:
        dodo.append((9, 'extra'))
    usable = [o for o in spec if o['short'] or o['long']]
    opt_tokens = []
    last_short_flag = False          # the last token is '-xy..' made of short flags only
    for _ in range(rng.randint(0, 5)):
        if not usable:
            break
        o = rng.choice(usable)
        if o['ty'] == 'bool':
            flagval = rng.random() < 0.6 or not o['inverse']
            assigns.append((o['n'], flagval))
            toks = render_assignment(rng, spec, o, None, flagval)
        else:
            s = valid_string(rng, o, True)
            assigns.append((o['n'], s))
            toks = render_assignment(rng, spec, o, s, None)
        is_short = len(toks[0]) >= 2 and toks[0][0] == '-' and toks[0][1] != '-'
        if last_short_flag and is_short and rng.random() < 0.6:
            opt_tokens[-1] += toks[0][1:]          # cluster: -a -b -> -ab ; -a -s v -> -as v ; -a -sv -> -asv
            opt_tokens += toks[1:]
        else:
            opt_tokens += toks
        last_short_flag = is_short and o['ty'] == 'bool'
    pos, pos_tokens = [], []
    if rng.random() < 0.6:
        pos = [rstr(rng, 0, 3) for _ in range(rng.randint(1, 3))]
        if rng.random() < 0.4:
            pos_tokens = ['--'] + pos
        else:
            if pos[0].startswith('-') and pos[0] != '-':
                pos[0] = 'p' + pos[0]
            pos_tokens = list(pos)
    c = dict(kind='wf', spec=spec, cfg=cfg, env=env, dodo=dodo, argv=opt_tokens + pos_tokens, assigns=assigns, pos=pos,
             opt_tokens=opt_tokens, task=rng.random() < 0.3)
    if inject == 'env-ill-typed':
        cands = [o for o in spec if invalid_string(rng, o, False) is not None]
        if cands:
            o = rng.choice(cands)
            if not o['env']:
                o['env'] = 10 + o['n']
            c['env'] = [(k, v) for k, v in env if k != o['env']] + [(o['env'], invalid_string(rng, o, False))]
            c['kind'] = 'bad:' + inject
            c['bad_opt'] = o['n']
    elif inject == 'cfg-ill-typed':
        cands = [o for o in spec if invalid_string(rng, o, False) is not None]
        if cands:
            o = rng.choice(cands)
            c['cfg'] = [(k, v) for k, v in cfg if k != o['n']] + [(o['n'], invalid_string(rng, o, False))]
            c['kind'] = 'bad:' + inject
            c['bad_opt'] = o['n']
    elif inject == 'missing-arg':
        valued = [o for o in spec if o['ty'] != 'bool' and (o['short'] or o['long'])]
        if valued:
            o = rng.choice(valued)
            tok = ('-' + o['short']) if (o['short'] and (rng.random() < 0.5 or not o['long'])) else ('--' + o['long'])
            c.update(kind='bad:' + inject, argv=opt_tokens + [tok], pos=[])
    elif inject:
        bad = make_bad_tokens(rng, spec, inject)
        if bad is not None:
            c.update(kind='bad:' + inject, argv=opt_tokens + bad[0] + pos_tokens, bad_opt=bad[1])
    return c


def make_bad_tokens(rng, spec, kind):
    """(tokens, number of the option concerned or 0) or None"""
    shorts = {o['short'] for o in spec}
    entries = long_entries(spec)
    valued = [o for o in spec if o['ty'] != 'bool']
    if kind == 'unknown-short':
        free = [ch for ch in 'zqw:' if ch not in shorts]
        return ['-' + rng.choice(free)], 0
    if kind == 'unknown-long':
        nm = rng.choice(['zz', 'q', 'zeta'])
        return (['--' + nm], 0) if not any(e.startswith(nm) for e in entries) else None
    if kind == 'flag-with-arg':
        fl = [o for o in spec if o['ty'] == 'bool' and o['long']]
        return (['--' + rng.choice(fl)['long'] + '=1'], 0) if fl else None
    if kind == 'ambiguous':
        for i in (1, 2, 3):
            for e in entries:
                p = e[:i]
                poss = [x for x in entries if x.startswith(p)]
                if len(poss) > 1 and p not in poss and p + '=' not in poss and '=' not in p:
                    return ['--' + p], 0
        return None
    if kind in ('ill-typed', 'bad-choice'):
        cands = [o for o in valued if (o['short'] or o['long']) and
                 ((kind == 'bad-choice') == bool(o['choices'])) and invalid_string(rng, o) is not None]
        if not cands:
            return None
        o = rng.choice(cands)
        return render_assignment(rng, spec, o, invalid_string(rng, o), None), o['n']
    return None


WILD_TOKENS = ['-', '--', '', '---', '-=', '--=', '--=a', '-:', '-a', '-b', '-ab', '-ba', '-abc', '--a', '--ab', '--abc', '--ab=',
               '--ab=1', '--b', '--b=x', '--no', '--no-ab', '--x', '--x=', 'a', 'b', '1', 'x y', '-1', '--c-d', '--c', '-a1', '-c', '-ca',
               '--ab=a=b', '-a=1', '--de', '--d', '-d', '-e', 'yes', '--ba', '--abd=--', '-h', '- a']


def gen_wild_case(rng):
    """class C: anything goes (ill-formed specs included); correspondence and purity only"""
    n = rng.randint(0, 5)
    spec = []
    for i in range(n):
        ty = rng.choice(['bool', 'int', 'str', 'list', 'even'])
        choices = rng.choice([[], [], [], ['a', 'bc'], ['1', 'yes']])
        default = rng.choice([gen_default(rng, ty, []), gen_default(rng, ty, []), None, 'str', ['l']])
        spec.append(dict(
            n=rng.choice([i + 1, i + 1, i + 1, 1]), ty=ty, default=default,
            short=rng.choice(['a', 'b', 'c', 'd', 'e', '', 'ab', ':', '-', '=', 'a']),
            long=rng.choice(['ab', 'abc', 'a', 'b', 'ba', 'c-d', '', 'x', 'ab=', 'de', 'no-ab']),
            inverse=rng.choice(['', '', 'no-ab', 'no', 'abc', 'x']),
            choices=choices, env=rng.choice([0, 0, 10, 11, 12])))
    sval = lambda: rng.choice(['1', 'yes', 'a,b', 'x', '', ' 7', 'bc', 'off', 'a', '-2'])

    def tok():
        r = rng.random()
        if spec and r < 0.55:           # tokens built from the names of this spec
            o = rng.choice(spec)
            return rng.choice(['-' + o['short'], '-' + o['short'] + sval(), '--' + o['long'], '--' + o['long'] + '=' + sval(),
                               '--' + o['inverse'], '--' + o['long'][:1], '-' + o['short'] + rng.choice(spec)['short'], sval()])
        return rng.choice(WILD_TOKENS) if r < 0.9 else rstr(rng, 0, 4, '-ab=c: ,1')
    argv = [tok() for _ in range(rng.randint(0, 6))]
    tval = lambda: rng.choice([None, True, False, 3, ['q'], [], sval(), sval()])
    cfg = [(rng.randint(1, 6), tval()) for _ in range(rng.choice([0, 0, 1, 2]))]
    dodo = [(rng.randint(1, 7), tval()) for _ in range(rng.choice([0, 0, 1, 2]))]
    env = [(k, sval()) for k in (10, 11, 12) if rng.random() < 0.3]
    # a dict has one entry per key
    cfg = list(dict(cfg).items())
    dodo = list(dict(dodo).items())
    return dict(kind='wild', spec=spec, cfg=cfg, env=env, dodo=dodo, argv=argv, assigns=None, pos=None, task=rng.random() < 0.3)


# ------------------------------------------------------------------ the property, judged on the implementation alone
def expected_wf(c):
    """final value of every key + positional args, computed from the assignment (no doit code)"""
    byn = {o['n']: o for o in c['spec']}
    envd = dict(c['env'])
    vals, nd = {}, set()
    for o in c['spec']:
        v = copy.deepcopy(o['default'])
        for k, cv in c['cfg']:
            if k == o['n']:
                v = ref_convert(o['ty'], cv) if isinstance(cv, str) else cv
        if o['env'] and o['env'] in envd:
            v = ref_convert(o['ty'], envd[o['env']])
            nd.add(o['n'])
        vals[o['n']] = v
    for k, a in c['assigns']:
        o = byn[k]
        if o['ty'] == 'bool':
            vals[k] = a
        elif o['ty'] == 'list':
            vals[k] = vals[k] + [a]
        else:
            vals[k] = ref_convert(o['ty'], a)
        nd.add(k)
    parsed = dict(vals)
    for k, v in c['dodo']:
        if k not in nd:
            vals[k] = v
    return parsed, vals


def judge(c, det, out):
    shape = c['kind']
    slim = {k: c[k] for k in ('spec', 'cfg', 'env', 'dodo', 'argv')}
    ps = det['parses']
    if len(ps) == 2:
        # purity: same parser object, same input -> same result; option defaults untouched
        if ps[0]['enc'] != ps[1]['enc']:
            out.violations.append(dict(what='parsing the same command line twice with one parser object gave different results',
                                       shape='impure-second-parse', case=slim))
        if ps[0]['before'] != ps[0]['after'] or ps[1]['before'] != ps[1]['after']:
            out.violations.append(dict(what='parse() changed the default of an option of the parser',
                                       shape='parse-mutates-default', case=slim))
    if shape == 'wf':
        parsed, final = expected_wf(c)
        ok = det['overwrite'] == 0 and ps and ps[0]['outcome'] == 0
        if not ok:
            oc = ps[0]['outcome'] if ps else det['overwrite']
            lc = any(o['ty'] == 'list' and o['choices'] for o in c['spec'])
            out.violations.append(dict(what='a well-formed command line / environment / configuration was rejected (outcome %s)' % oc,
                                       shape='list-choices-typeerror' if (oc == 98 and lc) else 'wf-rejected', case=slim))
            return
        got = {int(k[1:]): v for k, v in ps[0]['params'].items()}
        if got != parsed:
            out.violations.append(dict(what='parsed option values differ from the values written (expected %r, got %r)' % (parsed, got),
                                       shape='roundtrip-values', case=slim))
        if ps[0]['args'] != c['pos']:
            out.violations.append(dict(what='positional arguments not returned unchanged (expected %r, got %r)' % (c['pos'], ps[0]['args']),
                                       shape='roundtrip-positional', case=slim))
        gotf = {int(k[1:]): v for k, v in det.get('final', {}).items()}
        if gotf != final:
            out.violations.append(dict(what='precedence cmdline > env > DOIT_CONFIG > config file > default violated (expected %r, got %r)' % (final, gotf),
                                       shape='precedence', case=slim))
    elif shape.startswith('bad:'):
        oc = ps[0]['outcome'] if ps else det['overwrite']
        if oc != 3:
            o = next((o for o in c['spec'] if o['n'] == c.get('bad_opt')), None)
            sid = 'not-rejected:' + shape[4:]
            lc = any(o_['ty'] == 'list' and o_['choices'] for o_ in c['spec'])
            if oc == 98 and lc:
                sid = 'list-choices-typeerror'
            elif o is not None and o['ty'] == 'list' and o['choices']:
                sid = 'list-choices-cmdline-unvalidated'
            out.violations.append(dict(what='%s was not rejected with a parse error (outcome %s)' % (shape[4:], oc),
                                       shape=sid, case=slim))


# ------------------------------------------------------------------ parts
def part_scenarios(ctx, out):
    rng = ctx.rng
    cases = []
    kinds = ['unknown-short', 'unknown-long', 'flag-with-arg', 'ambiguous', 'ill-typed', 'bad-choice', 'env-ill-typed',
             'cfg-ill-typed', 'missing-arg']
    plan = [('wf', ctx.n(170, 2400)), ('bad', ctx.n(110, 1500)), ('wild', ctx.n(170, 2600))]
    for what, n in plan:
        for _ in range(n):
            if what == 'wf':
                c = gen_wf_case(rng)
            elif what == 'bad':
                c = gen_wf_case(rng, inject=rng.choice(kinds))
            else:
                c = gen_wild_case(rng)
            check_int_oracle(c, out)
            try:
                obs, det = run_impl(c)
            except Exception as e:  # noqa  (e.g. the constructor raising)
                obs, det = [98], {'parses': [], 'overwrite': 98}
            judge(c, det, out)
            out.count('scenario:' + c['kind'])
            for p_ in det['parses'][:1]:
                out.count('parse-outcome:%s:%d' % (c['kind'].split(':')[0], p_['outcome']))
            if c['argv'] or c['env'] or c['cfg']:
                out.nontrivial.add((c['kind'], tuple(c['argv']), tuple((o['ty'], o['short'], o['long'], o['inverse']) for o in c['spec']),
                                    tuple(c['env']), repr(c['cfg'])))
            cases.append(dict(model=case_model(c), expected=obs, desc=dict(kind=c['kind'], spec=c['spec'], cfg=c['cfg'], env=c['env'],
                                                                          dodo=c['dodo'], argv=c['argv'])))
            if len(out.samples) < 3 and c['kind'] == 'wf' and len(c['argv']) >= 3:
                out.samples.append(dict(argv=c['argv'], options=[(o['ty'], o['short'], o['long'], o['inverse']) for o in c['spec']],
                                        env=c['env'], config=c['cfg'], doit_config=c['dodo'], observed=obs))
    return cases


def part_getopt(ctx, out):
    """getopt.getopt itself against the model's getopt (random short/long tables, random tokens)"""
    rng = ctx.rng
    cases = []
    for _ in range(ctx.n(150, 2500)):
        so = ''.join(rng.choice(['a', 'b', 'c', 'a:', 'b:', 'd:', ':', '-', '=', 'e']) for _ in range(rng.randint(0, 4)))
        lo = [rng.choice(['ab', 'ab=', 'abc', 'abc=', 'a', 'a=', 'b=', 'ba', 'c-d=', 'x', '=', 'de=', 'no-ab']) for _ in range(rng.randint(0, 4))]
        tok = lambda: rng.choice(WILD_TOKENS) if rng.random() < 0.8 else rstr(rng, 0, 4, '-ab=c: ,1')
        args = [tok() for _ in range(rng.randint(0, 6))]
        try:
            opts, rest = getopt.getopt(list(args), so, list(lo))
            obs = [0, len(opts)]
            for o, v in opts:
                obs += zstr(o) + zstr(v)
            obs += [len(rest)]
            for a in rest:
                obs += zstr(a)
        except getopt.GetoptError:
            obs = [3]
        except Exception:  # noqa
            obs = [98]
        out.count('getopt:%s' % ('error' if obs == [3] else 'ok'))
        if args:
            out.nontrivial.add(('getopt', so, tuple(lo), tuple(args)))
        cases.append(dict(model='getopt_z (getopt %s %s %s)' % (cstr(so), clist(cstr(x) for x in lo), clist(cstr(a) for a in args)),
                          expected=obs, desc=dict(kind='getopt', short=so, long=lo, args=args)))
    return cases


def part_task_options(ctx, out):
    """Task.init_options (task.py 375-397): per-task params with cfg_values as defaults; observed
    through task.options, compared with the model's overwrite_defaults + parse"""
    from doit.task import Task
    from doit.cmdparse import CmdParseError
    rng = ctx.rng
    cases = []
    for _ in range(ctx.n(40, 500)):
        c = gen_wf_case(rng, inject=rng.choice([None, None, None, 'ill-typed', 'unknown-short']))
        if not c['argv']:
            continue
        c['dodo'] = []
        params = [opt_dict(o) for o in c['spec']]
        with Environ(c['env']):
            try:
                t = Task('t', None, params=params)
                t.cfg_values = {'o%d' % k: copy.deepcopy(v) for k, v in c['cfg']}
                rest = t.init_options(list(c['argv']))
                obs = [0, len(t.options)]
                for k, v in t.options.items():
                    obs += [int(k[1:])] + zval(v)
                obs += [len(rest)]
                for a in rest:
                    obs += zstr(a)
            except CmdParseError:
                obs = [3]
            except Exception:  # noqa
                obs = [98]
        model = ('let st0 := mk_parser %s in let (o1, st1) := overwrite_defaults conv_ref st0 %s in '
                 'match o1 with Ok _ => match fst (parse conv_ref st1 (env_of %s) %s) with '
                 '| Ok (d, args) => [0%%Z; Z.of_nat (List.length (d_items d))] ++ flat_map (fun kv => zN (fst kv) :: value_z (snd kv)) (d_items d) '
                 '++ Z.of_nat (List.length args) :: flat_map str_z args | r => [outcome_z r] end | r => [outcome_z r] end') % (
            clist(copt(o) for o in c['spec']), ckv(c['cfg']),
            clist('(%d%%N, %s)' % (k, cstr(v)) for k, v in c['env']), clist(cstr(a) for a in c['argv']))
        out.count('task-params:%s' % ('ok' if obs[0] == 0 else 'error'))
        out.nontrivial.add(('task', tuple(c['argv']), repr(c['cfg'])))
        if c['kind'] == 'wf':
            parsed, _ = expected_wf(c)
            got = {int(k[1:]): v for k, v in t.options.items()} if obs[0] == 0 else None
            if got != parsed or rest != c['pos']:
                out.violations.append(dict(what='task params: values/positional differ from the values written (expected %r %r, got %r %r)' % (
                    parsed, c['pos'], got, rest if obs[0] == 0 else None),
                    shape='list-choices-typeerror' if (obs[0] == 98 and any(o['ty'] == 'list' and o['choices'] for o in c['spec'])) else 'task-params-roundtrip',
                    case={k: c[k] for k in ('spec', 'cfg', 'env', 'argv')}))
        elif obs[0] != 3:
            out.violations.append(dict(what='task params: %s not rejected with a parse error' % c['kind'],
                                       shape='list-choices-typeerror' if (obs[0] == 98 and any(o['ty'] == 'list' and o['choices'] for o in c['spec'])) else 'task-params-not-rejected',
                                       case={k: c[k] for k in ('spec', 'cfg', 'env', 'argv')}))
        cases.append(dict(model=model, expected=obs, desc=dict(kind='task-params', spec=c['spec'], cfg=c['cfg'], env=c['env'], argv=c['argv'])))
    return cases


def part_exit_code(ctx, out):
    """DoitMain.run maps CmdParseError to exit code 3 (doit_cmd.py 293-310): exercised, not modelled"""
    import io, contextlib
    from doit.doit_cmd import DoitMain
    d = ctx.subdir('exit3')
    with open(os.path.join(d, 'dodo.py'), 'w') as f:
        f.write("def task_t():\n    return {'actions': None, 'params': [{'name': 'n', 'short': 'n', 'type': int, 'default': 0}]}\n")
    cwd = os.getcwd()
    n = 0
    try:
        os.chdir(d)
        for argv, want in ((['run', '--zz-unknown'], 3), (['list', '-Z'], 3), (['run', '--verbosity'], 3),
                           (['run', '--verbosity=x'], 3), (['run', '--continue=1'], 3), (['list', '--quiet'], 0)):
            buf = io.StringIO()
            with contextlib.redirect_stdout(buf), contextlib.redirect_stderr(buf):
                try:
                    rc = DoitMain().run(argv + ([] if argv[0] != 'run' else []))
                except SystemExit as e:
                    rc = e.code
                except Exception:  # noqa
                    rc = 98
            n += 1
            out.count('exit-code:%s' % rc)
            if rc != want:
                out.violations.append(dict(what='doit %s exited with %s, expected %s' % (' '.join(argv), rc, want),
                                           shape='exit-code-3', case=dict(argv=argv)))
    finally:
        os.chdir(cwd)
    out.extra['exit_code_runs_exercised_only'] = n


def run(ctx):
    out = Outcome()
    out.rule = ('scenario cases: well-formed (spec, assignment rendered in every getopt form, env/config/DOIT_CONFIG filled), the same '
                'with one injected error per kind, and wild ones (ill-formed specs, token soup); getopt.getopt alone on random tables; '
                'Task.init_options.  non-trivial = distinct (kind, argv, option shapes, env, config) with a non-empty argv/env/config')
    cases = part_scenarios(ctx, out) + part_getopt(ctx, out) + part_task_options(ctx, out)
    part_exit_code(ctx, out)
    out.evaluations = len(cases) + out.extra.get('exit_code_runs_exercised_only', 0)
    bad = common.compare_with_model(ctx, PRE, cases)
    out.traces_validated = len(cases)
    for i, m in bad:
        out.mismatches.append(dict(case=cases[i]['desc'], impl=cases[i]['expected'], model=m))
    out.assumptions = [
        'option `type` callables other than bool/list/str (int, custom) are an oracle: conv : N -> string -> option value, None = ValueError; '
        'exceptions other than ValueError raised by a custom type are outside the model',
        'strings are byte strings; str.lower()/str.strip() are modelled for ASCII input (non-ASCII white space / case mapping not modelled)',
        'the mapping of CmdParseError to exit code 3 by DoitMain.run is exercised by the harness, not proved',
        'option values that are not None/bool/int/str/list-of-str (floats, tuples, dicts from TOML) are outside the model',
    ]
    out.extra['trusted_base'] = ['encoding of Python values/dicts into the integer lists compared with the model (harness/c16.py zval/zparams)',
                                 'the instance conv_ref of the type-conversion oracle used for evaluation (checked against int() on every generated string)']
    return out


def replay(ctx, payload):
    import json
    c = payload.get('case') or {}
    print(json.dumps(payload, indent=1, default=str)[:4000])
    if isinstance(c, dict) and 'spec' in c and 'argv' in c:
        c = dict(c)
        c['cfg'] = [tuple(x) for x in c.get('cfg', [])]
        c['env'] = [tuple(x) for x in c.get('env', [])]
        c['dodo'] = [tuple(x) for x in c.get('dodo', [])]
        obs, det = run_impl(c)
        print('observed now:', obs)
        for i, p in enumerate(det['parses']):
            print('parse %d: outcome=%s params=%s args=%s' % (i + 1, p['outcome'], p['params'], p['args']))
    return 0
