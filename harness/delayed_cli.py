"""Shared CLI part for C01 / C02: tasks created at run time by create_after creators are outside the static
task table of the run-family model (Model/Dispatch.v), so their ordering and once-only behaviour is exercised
here through the real command line under the three runners.  A fixed dodo module (static tasks + two delayed
creators: one returning a single task that takes over its placeholder's node, one yielding sub-tasks) with
calc_dep / task_dep / setup on the created tasks; several selections.  Oracles work on the DECLARED table below
(never on what the code under test computed):
  C01: every executed task runs after each of its declared dependencies (task_dep, calc_dep, what the calc_dep
       task returns, setup tasks, the creator's `executed` trigger);
  C02: the executed tasks are exactly the dependency closure of the selection, each once."""
import os, subprocess, sys, tempfile, textwrap
import common

DODO = textwrap.dedent('''
    import os
    from doit import create_after
    LOG = os.path.join(os.path.dirname(os.path.abspath(__file__)), 'log.txt')
    def say(msg):
        with open(LOG, 'a') as fh:
            fh.write(msg + '\\n')
    def ret(msg, val):
        say(msg)
        return val
    def task_pre():
        return {'actions': [(say, ['run pre'])]}
    def task_calc():
        return {'actions': [(ret, ['run calc', {'task_dep': ['extra']}])]}
    def task_calc2():
        return {'actions': [(ret, ['run calc2', {'task_dep': ['extra2']}])]}
    def task_extra():
        return {'actions': [(say, ['run extra'])]}
    def task_extra2():
        return {'actions': [(say, ['run extra2'])]}
    def task_dep1():
        return {'actions': [(say, ['run dep1'])]}
    def task_dep2():
        return {'actions': [(say, ['run dep2'])]}
    def task_stp():
        return {'actions': [(say, ['run stp'])]}
    def task_other():
        return {'actions': [(say, ['run other'])]}
    def mk(path, msg):
        with open(os.path.join(os.path.dirname(os.path.abspath(__file__)), path), 'w') as fh:
            fh.write('x')
        say(msg)
    def task_produce():
        return {'actions': [(mk, ['data.txt', 'run produce'])], 'targets': ['data.txt']}
    @create_after(executed='pre')
    def task_cons():
        # file_dep on the target of a statically defined task: implicit task_dep
        return {'actions': [(say, ['run cons'])], 'file_dep': ['data.txt']}
    @create_after(executed='pre')
    def task_late():
        return {'actions': [(say, ['run late'])], 'calc_dep': ['calc'], 'task_dep': ['dep1'], 'setup': ['stp']}
    @create_after(executed='pre')
    def task_gen():
        yield {'name': 'a', 'actions': [(say, ['run gen:a'])], 'calc_dep': ['calc2']}
        yield {'name': 'b', 'actions': [(say, ['run gen:b'])], 'task_dep': ['dep2']}
''')

# declared direct dependencies (what must have run before the task starts)
DEPS = {
    'pre': [], 'calc': [], 'calc2': [], 'extra': [], 'extra2': [], 'dep1': [], 'dep2': [], 'stp': [], 'other': [],
    'late': ['pre', 'calc', 'extra', 'dep1', 'stp'],
    'produce': [], 'cons': ['pre', 'produce'],
    'gen:a': ['pre', 'calc2', 'extra2'],
    'gen:b': ['pre', 'dep2'],
}
# selection -> selected leaves (groups expanded)
SELECTIONS = {
    ('late',): ['late'],
    ('late', 'calc'): ['late', 'calc'],
    ('calc', 'late'): ['late', 'calc'],
    ('gen:a',): ['gen:a'],
    ('gen',): ['gen:a', 'gen:b'],
    ('gen', 'late', 'other'): ['gen:a', 'gen:b', 'late', 'other'],
    ('cons',): ['cons'],
    ('cons', 'late'): ['cons', 'late'],
}
RUNNERS = (('serial', []), ('thread', ['-n', '2', '-P', 'thread']), ('proc', ['-n', '2']))


def closure(leaves):
    seen = []
    def go(t):
        if t in seen:
            return
        for d in DEPS[t]:
            go(d)
        seen.append(t)
    for t in leaves:
        go(t)
    return set(seen)


def delayed_cli_part(ctx, out, pid):
    n = 0
    sels = list(SELECTIONS.items())
    if ctx.quick:
        runs = [(s, r) for i, s in enumerate(sels) for j, r in enumerate(RUNNERS) if j == 0 or (i + j) % 2 == 0]
    else:
        runs = [(s, r) for s in sels for r in RUNNERS]
    for (sel, leaves), (rname, args) in runs:
        d = tempfile.mkdtemp(prefix='dly_', dir=ctx.tmp); n += 1
        open(os.path.join(d, 'dodo.py'), 'w').write(DODO)
        try:
            p = subprocess.run([sys.executable, '-m', 'doit', 'run'] + args + list(sel), cwd=d, env=common.impl_env(),
                               capture_output=True, text=True, timeout=120)
            rc, err = p.returncode, p.stderr[-400:]
        except subprocess.TimeoutExpired:
            rc, err = 98, 'timeout'
        logf = os.path.join(d, 'log.txt')
        log = open(logf).read().split('\n')[:-1] if os.path.exists(logf) else []
        runs_ = [l[4:] for l in log if l.startswith('run ')]
        out.count('delayed-cli:%s:rc%s' % (rname, rc)); out.evaluations += 1
        out.nontrivial.add(('delayed-cli', sel, rname))
        case = dict(part='delayed-cli', dodo=DODO, selection=list(sel), args=args, executed=runs_, exit=rc, stderr=err)
        def bad(shape, what):
            out.violations.append(dict(what=what + ' (tasks created by create_after creators; `doit run %s`, %s runner)' % (' '.join(args + list(sel)), rname),
                                       shape='%s:delayed-%s' % (pid.lower(), shape), case=case))
        if rc != 0:
            bad('exit', 'the run ended with exit code %s: %s' % (rc, err))
            continue
        if pid == 'C01':
            for i, t in enumerate(runs_):
                for dep in DEPS.get(t, []):
                    if dep not in runs_[:i]:
                        bad('dep-order', 'task %s started %s its declared dependency %s' % (t, 'before' if dep in runs_ else 'without', dep))
        if pid == 'C02':
            want = closure(leaves)
            for t in sorted(want):
                c = runs_.count(t)
                if c != 1:
                    bad('closure-count', 'task %s is in the dependency closure of the selection but its actions were executed %d time(s)' % (t, c))
            for t in sorted(set(runs_) - want):
                bad('outside-closure', 'task %s was executed although it is not in the dependency closure of the selection' % t)
    out.extra['delayed_cli_runs'] = n
    out.rule += '; plus %d CLI runs of a dodo with create_after creators (created tasks with calc_dep / task_dep / setup; serial, -n 2 -P thread, -n 2 processes), judged on the declared dependency table' % n
