"""C09, declaration-form part: the way a dodo file WRITES its dependencies must not change the task graph.

Dimension: the container objects the dependency attributes are written with.  A dodo module is generated whose
tasks take their `task_dep`, `setup`, `calc_dep`, `file_dep` (on other tasks' `targets`), `getargs`, `uptodate`
(`result_dep`) values -- and the values their actions return for the users of a `calc_dep` -- either from
literals of their own (list or tuple) or from MODULE-LEVEL CONSTANTS shared by several tasks / several
attributes (the same list, tuple or dict object handed to more than one task: `COMMON_SETUP = ['init']`).
The graphs (3-6 tasks, acyclic, or with back edges / self loops of any kind), the selection, the order of the
task-creators in the module and the runner (serial, thread, process) vary along.

Implementation side: the real `DoitMain().run(['run', '-f', <module>, ...])` (loader, TaskControl, dispatcher,
runner, real DB) in a driver process per batch, under a watchdog; a few cases also through `python -m doit`.
Observed: exit code, output text, the tasks whose action ran (a log file written by the actions).

Oracle (computed from the generated declaration only, never from Task objects):
  G = declared edges: task_dep, setup, calc_dep, producer of a file_dep, getargs source, result_dep task, and for a
  calc_dep c of t the tasks / producers of files that c's action returns.  Every task runs (fresh DB) and succeeds.
  * closure of the selection contains a task that lies on a cycle of G  =>  exit 3 with a
    "Cyclic/recursive dependencies" error and no task on a cycle executed;
  * otherwise  =>  no cycle error, exit 0 and every task of the closure executed (exactly once); no hang.
Model side: the same declared table is run on Model/Dispatch.v + Runner.v (run_serial) and the exit code and
the set of executed tasks (acyclic cases) are compared with the real run of the serial runner.
"""
import json, os, subprocess, sys, textwrap
import common

NAME_KINDS = ('task_dep', 'setup', 'calc_dep')
ALL_KINDS = ('task_dep', 'setup', 'calc_dep', 'file_dep', 'getargs', 'result_dep', 'ret_task', 'ret_file')


# ------------------------------------------------------------------------------------------ generation
def gen_case(rng, force_shared=True):
    n = rng.choice([3, 3, 4, 4, 5, 6])
    cyclic = rng.random() < 0.35
    # slots[(i, kind)] = dict(items=[task ids], ctr='list'|'tuple', pool=None|k)
    slots = {}
    pools = []
    def cands(items, kinds):
        top = n if cyclic else min(items)
        return [(i, k) for i in range(top) for k in kinds if (i, k) not in slots]
    npools = rng.choice([1, 1, 2, 2, 3]) if force_shared else 0
    for _ in range(npools):
        cls = rng.choice(['names', 'names', 'names', 'files', 'getargs', 'uptodate', 'returned'])
        lo = 0 if cyclic else 1
        items = sorted(rng.sample(range(lo, n), rng.choice([1, 1, 2])))
        if cls == 'names':
            kinds = rng.choice([('setup',), ('task_dep',), ('calc_dep',), ('task_dep', 'setup'), NAME_KINDS])
            ctr = rng.choice(['list', 'list', 'tuple'])
        elif cls == 'files':
            kinds, ctr = ('file_dep',), rng.choice(['list', 'list', 'tuple'])
        elif cls == 'getargs':
            kinds, ctr = ('getargs',), 'dict'
        elif cls == 'uptodate':
            kinds, ctr = ('result_dep',), rng.choice(['list', 'tuple'])
        else:
            # a list returned by the actions of several calc tasks and / or used as somebody's task_dep
            kinds, ctr = ('ret_task', 'task_dep'), 'list'
        cs = cands(items, kinds)
        if cls == 'returned':
            # a task c returning `items` for its users: every user of c is < c, so c itself only has to be below the items
            cs = [(i, k) for (i, k) in cs if k != 'ret_task' or cyclic or i < min(items)]
        if len(cs) < 2:
            continue
        users = rng.sample(cs, min(len(cs), rng.choice([2, 2, 3])))
        k = len(pools)
        pool = dict(cls=cls, items=items, ctr=ctr, as_targets=False)
        if cls == 'files' and len(items) == 1 and rng.random() < 0.5:
            pool['as_targets'] = True           # the producer writes  targets = FILES_k  (same object as the users' file_dep)
        pools.append(pool)
        for s in users:
            slots[s] = dict(items=list(items), ctr=ctr, pool=k)
    # the other slots: literals of their own
    prob = dict(task_dep=0.35, setup=0.25, calc_dep=0.12, file_dep=0.2, getargs=0.12, result_dep=0.08, ret_task=0.0, ret_file=0.0)
    for i in range(n):
        later = list(range(i + 1, n)) if not cyclic else list(range(n))
        for kind in ALL_KINDS:
            if (i, kind) in slots or not later or rng.random() >= prob[kind]:
                continue
            items = sorted(rng.sample(later, min(len(later), rng.choice([1, 1, 2]))))
            if rng.random() < 0.15 and kind in NAME_KINDS:
                items = items + [items[0]]       # duplicate entry
            slots[(i, kind)] = dict(items=items, ctr='dict' if kind == 'getargs' else rng.choice(['list', 'list', 'tuple']), pool=None)
    # what a task's action returns for the users of a calc_dep on it
    for c in range(n):
        users = [i for i in range(n) if c in slots.get((i, 'calc_dep'), {}).get('items', [])]
        if not users:
            continue
        pool_ = list(range(c + 1, n)) if not cyclic else list(range(n))
        for kind in ('ret_task', 'ret_file'):
            if (c, kind) not in slots and pool_ and rng.random() < 0.5:
                slots[(c, kind)] = dict(items=sorted(rng.sample(pool_, min(len(pool_), rng.choice([1, 2])))), ctr='list', pool=None)
    if cyclic:
        pass
    else:
        # back-edge free by construction, except returned lists: a user u of calc task c gets u -> items(c); u < c < items
        pass
    tasks = []
    for i in range(n):
        tasks.append({k: slots[(i, k)] for k in ALL_KINDS if (i, k) in slots})
    sel_mode = rng.choice(['all', 'all', 'some', 'one'])
    if sel_mode == 'all':
        selected = None
    else:
        selected = rng.sample(range(n), 1 if sel_mode == 'one' else min(n, 2))
    order = list(range(n)); rng.shuffle(order)
    runner = rng.choice(['serial', 'serial', 'thread', 'process'])
    return dict(n=n, tasks=tasks, pools=pools, selected=selected, order=order, runner=runner, cyclic_gen=cyclic)


def idiom_cases():
    """the plain idioms, always present: one shared constant, two users, one extra implicit edge on one of them"""
    def S(items, ctr='list', pool=None):
        return dict(items=list(items), ctr=ctr, pool=pool)
    out = []
    for ctr in ('list', 'tuple'):
        for runner in ('serial', 'thread', 'process'):
            P = [dict(cls='names', items=[2], ctr=ctr, as_targets=False)]
            # shared setup; task 0 also takes a value from task 1 (getargs)
            out.append(dict(n=3, tasks=[{'setup': S([2], ctr, 0), 'getargs': S([1], 'dict')}, {'setup': S([2], ctr, 0)}, {}],
                            pools=P, selected=None, order=[2, 1, 0], runner=runner, cyclic_gen=False))
            # shared task_dep; task 0 also has a file_dep on task 1's target, a result_dep on it, a calc_dep returning it
            for extra in ('file_dep', 'result_dep', 'calc'):
                t0 = {'task_dep': S([2], ctr, 0)}
                t1 = {'task_dep': S([2], ctr, 0)}
                tasks = [t0, t1, {}]
                if extra == 'calc':
                    tasks = [t0, t1, {}, {'ret_task': S([1])}]
                    t0['calc_dep'] = S([3])
                else:
                    t0[extra] = S([1])
                out.append(dict(n=len(tasks), tasks=tasks, pools=P, selected=None, order=list(range(len(tasks))), runner=runner, cyclic_gen=False))
            # one list used as the task_dep of one task and the setup of another one that uses getargs
            out.append(dict(n=3, tasks=[{'setup': S([2], ctr, 0), 'getargs': S([1], 'dict')}, {'task_dep': S([2], ctr, 0)}, {}],
                            pools=P, selected=[0], order=[0, 1, 2], runner=runner, cyclic_gen=False))
    return out


# ------------------------------------------------------------------------------------------ rendering
def tname(i):
    return 't%d' % i


def render_value(kind, items, ctr):
    if kind in NAME_KINDS or kind == 'ret_task':
        elems = [repr(tname(j)) for j in items]
    elif kind in ('file_dep', 'ret_file'):
        elems = [repr('tgt_' + tname(j)) for j in items]
    elif kind == 'getargs':
        return '{' + ', '.join("'a%d': (%r, 'v')" % (j, tname(j)) for j in items) + '}'
    elif kind == 'result_dep':
        elems = ['result_dep(%r)' % tname(j) for j in items]
    if ctr == 'tuple':
        return '(' + ''.join(e + ', ' for e in elems) + ')'
    return '[' + ', '.join(elems) + ']'


POOL_KIND = {'names': 'task_dep', 'files': 'file_dep', 'getargs': 'getargs', 'uptodate': 'result_dep', 'returned': 'task_dep'}
ATTR = {'task_dep': 'task_dep', 'setup': 'setup', 'calc_dep': 'calc_dep', 'file_dep': 'file_dep', 'getargs': 'getargs', 'result_dep': 'uptodate'}


def render(case):
    L = ['import os', 'from doit.tools import result_dep', '', "DOIT_CONFIG = {'verbosity': 0}",
         'HERE = os.path.dirname(os.path.abspath(__file__))', '',
         'def _ran(name):',
         "    with open(os.path.join(HERE, 'ran.log'), 'a') as f:",
         "        f.write(name + '\\n')",
         "    with open(os.path.join(HERE, 'tgt_' + name), 'w') as f:",
         '        f.write(name)', '']
    for k, p in enumerate(case['pools']):
        L.append('SHARED_%d = %s' % (k, render_value(POOL_KIND[p['cls']], p['items'], p['ctr'])))
    L.append('')
    for i in case['order']:
        t = case['tasks'][i]
        def val(kind):
            s = t[kind]
            return 'SHARED_%d' % s['pool'] if s['pool'] is not None else render_value(kind, s['items'], s['ctr'])
        args = ', '.join('a%d=None' % j for j in sorted(set(t['getargs']['items']))) if 'getargs' in t else ''
        L.append('def task_%s():' % tname(i))
        L.append('    def act(%s):' % args)
        L.append('        _ran(%r)' % tname(i))
        ret = ["'v': %d" % i]
        if 'ret_task' in t:
            ret.append("'task_dep': %s" % val('ret_task'))
        if 'ret_file' in t:
            ret.append("'file_dep': %s" % val('ret_file'))
        L.append('        return {%s}' % ', '.join(ret))
        tg = None
        for k, p in enumerate(case['pools']):
            if p['cls'] == 'files' and p.get('as_targets') and p['items'] == [i]:
                tg = 'SHARED_%d' % k
        fields = ["'actions': [act]", "'targets': %s" % (tg or repr(['tgt_' + tname(i)]))]
        for kind in ('task_dep', 'setup', 'calc_dep', 'file_dep', 'getargs', 'result_dep'):
            if kind in t:
                fields.append('%r: %s' % (ATTR[kind], val(kind)))
        L.append('    return {%s}' % ',\n            '.join(fields))
        L.append('')
    return '\n'.join(L)


def run_args(case):
    a = {'serial': [], 'thread': ['-n', '2', '-P', 'thread'], 'process': ['-n', '2', '-P', 'process']}[case['runner']]
    return a + ([tname(i) for i in case['selected']] if case['selected'] is not None else [])


# ------------------------------------------------------------------------------------------ oracle
def declared_graph(case):
    """edges of the dependency graph as the generated declaration states them"""
    n, T = case['n'], case['tasks']
    def it(i, kind):
        return list(T[i][kind]['items']) if kind in T[i] else []
    G = {}
    for i in range(n):
        e = set()
        for kind in ('task_dep', 'setup', 'calc_dep', 'file_dep', 'getargs', 'result_dep'):
            e |= set(it(i, kind))
        for c in it(i, 'calc_dep'):
            e |= set(it(c, 'ret_task')) | set(it(c, 'ret_file'))
        G[i] = sorted(e)
    return G


def judge(case):
    G = declared_graph(case)
    sel = list(range(case['n'])) if case['selected'] is None else list(case['selected'])
    clo, todo = set(), list(sel)
    while todo:
        x = todo.pop()
        if x not in clo:
            clo.add(x); todo += G[x]
    def on_cycle(a):
        seen, todo = set(), list(G[a])
        while todo:
            y = todo.pop()
            if y == a:
                return True
            if y not in seen:
                seen.add(y); todo += G[y]
        return False
    cyc = sorted(x for x in range(case['n']) if on_cycle(x))
    return dict(graph=G, closure=sorted(clo), on_cycle=cyc, cyclic=any(x in clo for x in cyc))


def violations_of(case, verdict, rc, text, ran):
    bad = []
    cyc_msg = 'Cyclic/recursive dependencies' in text
    if rc == 98:
        bad.append(('decl-hang', 'run did not terminate'))
        return bad
    if verdict['cyclic']:
        # thread runner: the message can be swallowed -- the main thread writes it to sys.stderr while a worker thread is
        # inside a python-action and has swapped the process-global stream (known finding of C17, non re-entrant
        # save/restore); there only the exit code and the absence of a traceback are demanded, the loss is counted
        swallowed = case['runner'] == 'thread' and rc == 3 and not cyc_msg and 'Traceback' not in text and 'ERROR' not in text
        if (rc != 3 or not cyc_msg) and not swallowed:
            bad.append(('decl-cycle-not-diagnosed', 'the closure of the selection contains a dependency cycle (tasks %s) but the run ended with exit %s, cycle error reported: %s'
                        % ([tname(x) for x in verdict['on_cycle']], rc, cyc_msg)))
    else:
        if cyc_msg or rc == 3:
            bad.append(('decl-false-cycle-error', 'the declared graph has no cycle in the closure of the selection but the run ended with exit %s: %s'
                        % (rc, ([l for l in text.splitlines() if 'ERROR' in l or 'yclic' in l] or text.strip().splitlines()[-1:] or ['?'])[-1][:300])))
        elif rc != 0:
            bad.append(('decl-acyclic-run-failed', 'acyclic closure, every action succeeds, but the run ended with exit %s' % rc))
        else:
            missing = [tname(x) for x in verdict['closure'] if ran.count(tname(x)) != 1]
            if missing:
                bad.append(('decl-acyclic-not-completed', 'acyclic closure, exit 0, but tasks %s of the closure were not executed exactly once (executed: %s)' % (missing, ran)))
    hit = [x for x in ran if int(x[1:]) in verdict['on_cycle']]
    if hit:
        bad.append(('decl-cycle-task-executed', 'tasks %s lie on a dependency cycle and were executed' % sorted(set(hit))))
    return bad


# ------------------------------------------------------------------------------------------ real code
DRIVER = textwrap.dedent('''
    import io, json, os, signal, sys, time
    spec = json.load(open(sys.argv[1]))
    res = open(sys.argv[2], 'a')
    limit = float(sys.argv[3])
    from doit.doit_cmd import DoitMain

    def one(c, d, logf):
        # child process: one case, so that nothing a run leaves behind (sys.stdout, modules, cwd) reaches the next one
        os.setsid()
        fn = os.path.join(d, c['mod'] + '.py')
        open(fn, 'w').write(c['src'])
        fd = os.open(logf, os.O_WRONLY | os.O_CREAT | os.O_TRUNC)
        os.dup2(fd, 1); os.dup2(fd, 2)
        try:
            rc = DoitMain().run(['run', '-f', fn] + c['args'])
        except SystemExit as e:
            rc = e.code if isinstance(e.code, int) else 96
        except BaseException as e:
            rc = 97
            sys.stderr.write('ESCAPED %r' % (e,))
        sys.stdout.flush(); sys.stderr.flush()
        open(os.path.join(d, 'rc.txt'), 'w').write(str(rc))
        os._exit(0)

    for c in spec:
        d = c['dir']
        os.makedirs(d, exist_ok=True)
        logf = os.path.join(d, 'out.txt')
        sys.stdout.flush(); sys.stderr.flush()
        pid = os.fork()
        if pid == 0:
            try:
                one(c, d, logf)
            finally:
                os._exit(95)
        t0 = time.time(); rc = None
        while True:
            done, st = os.waitpid(pid, os.WNOHANG)
            if done:
                break
            if time.time() - t0 > limit:
                rc = 98
                try:
                    os.killpg(pid, signal.SIGKILL)
                except OSError:
                    pass
                os.waitpid(pid, 0)
                break
            time.sleep(0.002)
        if rc is None:
            rcf = os.path.join(d, 'rc.txt')
            rc = int(open(rcf).read()) if os.path.exists(rcf) else 97
        ranf = os.path.join(d, 'ran.log')
        ran = open(ranf).read().split() if os.path.exists(ranf) else []
        text = open(logf).read()[-1500:] if os.path.exists(logf) else ''
        res.write(json.dumps(dict(idx=c['idx'], rc=rc, text=text, ran=ran)) + '\\n')
        res.flush()
''')


def run_batch(ctx, items, tag, per_case_timeout=25):
    """items: list of (idx, src, args).  Returns {idx: (rc, text, ran)}; a case the driver hangs on gets rc 98."""
    base = ctx.subdir('c09decl_' + tag)
    drv = os.path.join(base, 'driver.py')
    open(drv, 'w').write(DRIVER)
    got = {}
    todo = list(items)
    rnd = 0
    while todo:
        rnd += 1
        spec = [dict(idx=i, dir=os.path.join(base, 'c%d' % i), mod='dodo_c%d' % i, src=src, args=args) for i, src, args in todo]
        sf = os.path.join(base, 'spec%d.json' % rnd); rf = os.path.join(base, 'res%d.jsonl' % rnd)
        json.dump(spec, open(sf, 'w'))
        open(rf, 'w').close()
        crashed = None
        try:
            p = subprocess.run([sys.executable, drv, sf, rf, str(per_case_timeout)], env=common.impl_env(), capture_output=True, text=True,
                               timeout=120 + 2 * len(todo), cwd=base)
            if p.returncode != 0:
                crashed = (p.stderr or '')[-800:]
        except subprocess.TimeoutExpired:
            crashed = 'TIMEOUT'
        for line in open(rf):
            r = json.loads(line)
            got[r['idx']] = (r['rc'], r['text'], r['ran'])
        rest = [t for t in todo if t[0] not in got]
        if rest and crashed is not None:
            i = rest[0][0]       # the case the driver died / hung on
            got[i] = (98 if crashed == 'TIMEOUT' else 97, 'driver: ' + crashed, [])
            rest = rest[1:]
        elif rest:
            for t in rest:
                got[t[0]] = (97, 'driver: no result', [])
            rest = []
        todo = rest
    return got


def run_cli(ctx, idx, src, args):
    d = ctx.subdir('c09decl_cli_%d' % idx)
    open(os.path.join(d, 'dodo.py'), 'w').write(src)
    try:
        p = subprocess.run([sys.executable, '-m', 'doit', 'run'] + args, cwd=d, env=common.impl_env(), capture_output=True, text=True, timeout=60)
        rc, text = p.returncode, p.stdout + p.stderr
    except subprocess.TimeoutExpired:
        rc, text = 98, 'timeout'
    ranf = os.path.join(d, 'ran.log')
    return rc, text[-1500:], (open(ranf).read().split() if os.path.exists(ranf) else [])


# ------------------------------------------------------------------------------------------ model
MODEL_PRE = ('From DoitV Require Import Base Dispatch Runner Parallel DeclTable.\nOpen Scope N_scope.\n'
             'Definition FUEL : nat := N.to_nat 4000.\n')


def nl(xs):
    return '[' + '; '.join(str(x) for x in xs) + ']'


def coq_decl(case, sfx):
    """the declaration as a Coq term: [decl_table] of Model/DeclTable.v builds the dispatcher's table from it"""
    T = case['tasks']
    def it(i, kind):
        return list(T[i][kind]['items']) if kind in T[i] else []
    arms = []
    for i in range(case['n']):
        arms.append('| %d => Some (Build_dtask %s %s %s %s %s %s %s %s)' % (
            i, nl(it(i, 'task_dep')), nl(it(i, 'setup')), nl(it(i, 'calc_dep')), nl(it(i, 'file_dep')), nl(it(i, 'getargs')),
            nl(it(i, 'result_dep')), nl(it(i, 'ret_task')), nl(it(i, 'ret_file'))))
    return 'Definition dd%s (n : name) : option dtask := match n with %s | _ => None end.' % (sfx, ' '.join(arms))


def model_case(case, sfx):
    sel = list(range(case['n'])) if case['selected'] is None else list(case['selected'])
    # doit runs the default selection in definition order
    if case['selected'] is None:
        sel = list(case['order'])
    expr = 'decl_verdict dd%s FUEL %s %d' % (sfx, nl(sel), case['n'])
    return coq_decl(case, sfx), expr


def shape_key(case):
    shared = sorted((p['cls'], p['ctr'], tuple(sorted(k for t in case['tasks'] for k, s in t.items() if s['pool'] == i)))
                    for i, p in enumerate(case['pools']))
    return (case['n'], case['runner'], tuple(shared), tuple(sorted((i, k, tuple(s['items'])) for i, t in enumerate(case['tasks']) for k, s in t.items())),
            tuple(case['selected']) if case['selected'] is not None else None)


def part(ctx, out, with_model=True):
    rng = ctx.rng
    cases = idiom_cases() + [gen_case(rng) for _ in range(ctx.n(140, 2500))] + [gen_case(rng, force_shared=False) for _ in range(ctx.n(12, 200))]
    srcs = [render(c) for c in cases]
    verdicts = [judge(c) for c in cases]
    got = run_batch(ctx, [(i, srcs[i], run_args(c)) for i, c in enumerate(cases)], 'b')
    ncli = ctx.n(4, 40)
    cli_idx = sorted(rng.sample(range(len(cases)), min(ncli, len(cases))))
    model_cases = []
    for i, c in enumerate(cases):
        rc, text, ran = got[i]
        v = verdicts[i]
        users = [sum(1 for t in c['tasks'] for s in t.values() if s['pool'] == k) + (1 if p.get('as_targets') else 0) for k, p in enumerate(c['pools'])]
        out.count('decl:%s:%s:rc%s' % (c['runner'], 'cyclic' if v['cyclic'] else 'acyclic', rc))
        out.count('decl:shared-objects:%d' % sum(1 for u in users if u >= 2))
        for k, p in enumerate(c['pools']):
            if users[k] >= 2:
                kinds = sorted(set(kk for t in c['tasks'] for kk, s in t.items() if s['pool'] == k))
                out.count('decl:shared:%s:%s:%s' % (p['cls'], p['ctr'], '+'.join(kinds)))
        if c['runner'] == 'thread' and v['cyclic'] and rc == 3 and 'Cyclic/recursive dependencies' not in text:
            out.count('decl:thread:cycle-message-swallowed(known C17 stream finding)')
        out.evaluations += 1
        if any(u >= 2 for u in users):
            out.nontrivial.add(('decl',) + shape_key(c))
        for shape, what in violations_of(c, v, rc, text, ran):
            out.violations.append(dict(what='%s (%s runner; dependency lists written with shared module-level objects)' % (what, c['runner']),
                                       shape='c09:%s' % shape,
                                       case=dict(dodo=srcs[i], args=['run'] + run_args(c), declared_graph={tname(a): [tname(b) for b in bs] for a, bs in v['graph'].items()},
                                                 closure=[tname(x) for x in v['closure']], on_cycle=[tname(x) for x in v['on_cycle']],
                                                 exit=rc, executed=ran, output=text[-600:], how='write `dodo` to dodo.py in an empty directory and run  python -m doit <args>')))
        if i in cli_idx:
            rc2, text2, ran2 = run_cli(ctx, i, srcs[i], run_args(c))
            out.count('decl-cli:rc%s' % rc2)
            out.evaluations += 1
            for shape, what in violations_of(c, v, rc2, text2, ran2):
                out.violations.append(dict(what='%s (%s runner, python -m doit)' % (what, c['runner']), shape='c09:%s' % shape,
                                           case=dict(dodo=srcs[i], args=['run'] + run_args(c), exit=rc2, executed=ran2, output=text2[-600:])))
            if rc2 != rc:
                out.violations.append(dict(what='python -m doit ended with exit %s, DoitMain().run in the driver process with %s on the same module' % (rc2, rc),
                                           shape='c09:decl-cli-differs', case=dict(dodo=srcs[i], args=['run'] + run_args(c))))
        if with_model and c['runner'] == 'serial' and rc in (0, 3):
            defs, expr = model_case(c, 'D%d' % i)
            # encoding: [exit code] ++ (exit 0: executed task ids ascending; exit 3: nothing)
            exp = [rc] + (sorted(set(int(x[1:]) for x in ran)) if rc == 0 else [])
            model_cases.append(dict(model=expr, expected=exp, defs=defs, idx=i))
    if with_model and model_cases:
        bad = common.compare_with_model(ctx, MODEL_PRE, model_cases)
        out.traces_validated = getattr(out, 'traces_validated', 0) + len(model_cases)
        for j, m in bad:
            i = model_cases[j]['idx']
            out.mismatches.append(dict(case=dict(dodo=srcs[i], args=['run'] + run_args(cases[i])), impl=model_cases[j]['expected'], model=m))
        out.extra['decl_cases_compared_with_model'] = len(model_cases)
    out.extra['decl_cases'] = len(cases)
    out.samples.append(dict(decl_case=dict(dodo=srcs[len(idiom_cases())], args=run_args(cases[len(idiom_cases())]),
                                           verdict=verdicts[len(idiom_cases())], observed=list(got[len(idiom_cases())][:1]) + [got[len(idiom_cases())][2]])))
    out.rule += ('; plus generated dodo modules (3-6 tasks) whose task_dep / setup / calc_dep / file_dep / targets / getargs / uptodate(result_dep) / '
                 'returned calc values are written with module-level list, tuple and dict objects SHARED by several tasks and attributes '
                 '(and literals), acyclic and cyclic, x selection x definition order x {serial, thread, process} through DoitMain().run '
                 '(some also through python -m doit), judged from the declared graph alone; non-trivial there = distinct declaration with '
                 'at least one object used by >= 2 attribute slots')
