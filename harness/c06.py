"""C06 -- interrupted or killed runs leave a dependency DB that never lies.

Everything runs the REAL doit: `DoitMain(ModuleTaskLoader(ns)).run([...])` in a SUBPROCESS of /venv/bin/python
with the environment of common.impl_env() (PYTHONPATH = the repository under test; this very file, started with
`--child spec.json`), so that interrupts really propagate
and kills really kill.  Task sets are small (2-4 tasks, python actions, file_dep/targets in a temp dir, all
paths relative to the run directory).  Actions are deterministic: a target's content and mtime are functions of
the contents of the task's dependencies, so the bytes doit writes to the DB are the same in every repetition of a
run.  The child records with fsync (the log survives SIGKILL) what the reporter, the dependency manager and the
actions see, and the state (md5 of every file_dep, existence of targets) at every selection of a task.

(1) interrupt sweep.  Each backend (json / sqlite3 / dbm = dbm.dumb in this environment), serial runner;
    KeyboardInterrupt / SystemExit raised inside the action at every action index, with and without prior DB
    content, with and without an earlier failing task (--continue).
      * correspondence: the event trace + exit code of the interrupted run is compared with Model/Runner.v
        `run_serial` on the same task table, evaluated inside Coq (table = task_dep / setup_tasks of every task as
        the run itself logs them when its TaskDispatcher is created -- the order of implicit task_deps follows a
        set iteration, i.e. the hash seed of THAT process; t_check = up-to-dateness recomputed by the harness from
        the logged file states);
      * oracle 1 (trace): the conclusions of C06_interrupt_flush, re-checked in python on the observed trace;
      * oracle 2 (DB): the DB left behind, opened with the real backend class, records exactly the tasks the
        harness's book-keeping of save_success/remove_success says (prior records of untouched tasks kept);
      * oracle 3 (next run): a second, normal run skips a task iff its targets exist and the recorded state of a
        flushed successful execution equals the present state: every task reported successful before the
        interruption is skipped, the interrupted and the not-yet-started ones are executed (unless an
        untouched prior record still fits).
    The thorough tier repeats the sweep with the process and thread runners and the timestamp checker (oracles
    only, no model).

(1b) value half of the interrupt sweep (serial AND thread runner, every backend, both tiers).  Task sets in which every
    task has 2-3 actions, the earlier ones returning value dicts or result strings (so the interrupted execution has
    already produced values when a later action raises); tasks with a `rev` file that is no file_dep, whose first
    action saves {'rev': ...} and whose uptodate callable `f(task, values)` compares the saved values['rev'] with the
    present file; getargs consumers (the producer becomes a setup-task and, through doit's implicit result_dep, part of
    the consumer's up-to-dateness).  Histories: one or two complete runs (the interrupted task succeeded before with
    non-empty values), edits, the interrupted run, then -- variant prior-revert -- the edit is taken back (all of it,
    sources only, rev files only) so that the state the OLD record was made for is the present state again.
      * oracle 2b (record rule, stated as the property text allows): for every task that the interrupted run neither
        saved (save_success) nor removed (remove_success) -- the interrupted task, the tasks not yet started, the
        skipped ones -- the record read by the real backend class after the run is EXACTLY the record read before the
        run, or absent; never anything else (e.g. the old signatures next to values of the interrupted execution).  A
        task saved by the run is recorded with exactly the values its completed execution returned; a removed one is
        absent.
      * oracle 3b: in every run of the case the `values` handed to an uptodate callable and the value a getargs consumer
        receives are those of the last successful execution that was saved and flushed (or saved earlier in the same
        run); the next run skips exactly the tasks whose flushed successful execution was made for the present state
        (file_dep md5s, rev file, producer's result).
      * correspondence: for the serial runner the DB after the interrupted run -- every record, key by key -- is
        compared with Crash.session_db (= Crash.db_ops on the trace Model/Runner.v computes, applied to the DB read
        before the run; recd = the (key, value) pairs save_success was seen handing to backend.set), evaluated in
        Coq together with the trace.  This is the term C06_interrupt_db / C06_interrupt_record_untouched speak about.

(1c) execution modes (implementation side only).  HOW an action is executed is decided by task attributes the Coq side does
    not model: `io: {'capture': True | False | None}` (PythonAction.execute / CmdAction.execute take a different path through
    their stream set-up and their `finally:` block when the output is not captured), `verbosity` 0/1/2 (which streams are handed
    to the action) and the action class (python-action / cmd-action `true` / `false` as an earlier, not interrupted action).
    Model/Runner.v and Model/Crash.v have ONE trace for an interrupting action whatever these attributes are, so the
    correspondence and the oracles above already say what must happen; the attributes are varied on the implementation side:
      * every generated task of (1), (1b) and (2) gets io / verbosity (and cmd-actions, in (1)) from the case's PRNG;
      * a SYSTEMATIC block that is the same on every seed: a fixed chain t3 <- t2 <- t1 <- t0 (t3 default, t2 capture None
        verbosity 1, t1 capture False verbosity 0 two actions, t0 capture False verbosity 2, cmd-action first); the interrupt at
        every action of t2, t1, t0 x every backend x {serial, thread, process} runner, KeyboardInterrupt and SystemExit
        alternating (quick tier, parallel runners: three of the five actions, two of them in capture-False tasks; thorough: all, both
        exceptions, and with a fresh DB as well).
      * oracle 0 (the run IS interrupted): once the interrupted action was started, the exception escapes DoitMain.run (exit
        status 4 of the child, never 0..3), no action logs a start after the interrupting one (serial runner), and the
        interrupted task is neither reported successful nor saved.  An interrupt that is swallowed is a violation of its own,
        whatever the DB says afterwards.

(1d) the OTHER ways a run aborts (the property: "... or by an internal error").  KeyboardInterrupt / SystemExit are not the only exceptions
    that leave Runner.run_tasks; Runner.run_all flushes the DB in a `finally:` whatever the exception is.  Abort kinds:
      (a) another BaseException subclass raised by a python-action -- a class of the user's own (C06Abort), GeneratorExit,
          asyncio.CancelledError -- serial, thread and process runner (the parallel master re-raises the class its worker reports);
      (b) an exception raised by the uptodate callable of a (later) task at check time (Dependency.get_status, called by select_task);
      (c) an exception raised by a value-saver when Task.save_extra_values collects the values AFTER the task's actions ran: a callable
          registering a raising saver, and doit.tools.check_timestamp_unchanged on a file that does not exist (OSError, as documented);
      (d) a cyclic dependency the dispatcher finds at run time after tasks completed (task_dep / setup edges closing a cycle are added
          to the task set for the aborting run only: the user's edit of the dodo file, taken back before the next run): the `ancestors`
          diagnostic and the "hold on" one (two tasks created by the same parent waiting for each other); InvalidDodoFile, exit 3.
    A SYSTEMATIC block that is the same on every seed -- 17 abort points of a fixed 6-task set (t0 with task_dep t1 and setup-task t2: the
    cycle through t2 and a raising check of t2 are met only after t1 was reported successful, with EVERY runner) x every backend x
    {serial, thread, process} (quick tier, parallel runners: eight of the points on every backend, the others on one backend each) -- and random
    (task, action, kind / closing edge, backend, runner, fresh / prior) points in generated task sets of (1) and (1b).
      * oracle 0 (the abort is seen): (a) the exception escapes DoitMain.run as the class that was raised (exit status 97 of the child);
        (b)-(d) DoitMain.run returns the error exit 3; the aborting task is neither reported successful nor saved; serial runner: nothing is
        selected / executed / reported / saved after the abort point;
      * oracle 1: Dependency.close ran EXACTLY ONCE (the DB was flushed), nothing is saved, removed or reported successful after it;
      * oracle 2 / 2b / 3 as in (1): the DB read by the real backend class records exactly the tasks saved before the abort (+ untouched prior
        records); every task REPORTED successful before the abort is skipped by the next run (which is run without the defect), the aborting
        task is executed.
      * correspondence: Model/Runner.v has the ends StopNormal, StopCycle, StopHold, StopInterrupt (+ StopFuel).  (d) is StopCycle /
        StopHold: the serial runs are compared with run_serial (trace incl. close / teardowns / the marker 11 or 12 = which of the two
        InvalidDodoFile diagnostics the dispatcher raised, exit code 3) and their DB with Crash.session_db -- the ends C06_every_exit_flushes speaks about.  (a)-(c) have
        no end in the model (Runner.v is shared and not extended here): oracles only; a case whose abort point is not reached is a
        normal run and is compared as such.

(1e) the class that executes the callable (the property: "raised inside ANY action").  An entry of a task's `actions` may be a callable, a
    (callable, args, kwargs) tuple, a doit.action.PythonAction object -- all PythonAction.execute --, a doit.tools.PythonInteractiveAction object
    (its own execute: no capture, `except Exception`, no test of the returned value) or a CmdAction whose command is computed by a callable
    (`except Exception` around expand_action).  Every action spec has a form `cls`; the interrupting action can be of any of them.
      * a SYSTEMATIC block (same on every seed): fixed chain t0 <- t1 <- t2 with 8 actions in which every form occurs (the tools / cmd forms as
        first, middle and last action); the interrupt inside each action x {KeyboardInterrupt, SystemExit} x {serial, thread, process} x backend;
        plus random points in generated task sets of (1) and (1b) whose actions get their form from the PRNG.
      * oracles 0-3 of (1) (judge_interrupt): the exception reaches the caller of DoitMain.run, no action is started afterwards, the
        interrupted task is neither reported nor saved; the trace has the shape of C06_interrupt_flush; the DB read by the real backend class;
        the next run skips exactly the tasks with a flushed successful execution for the present state.
      * correspondence: serial runs against Model/Runner.v + Crash.session_db as in (1) (ONE trace whatever the form); and, in this process,
        `execute` of the real classes (built by a real Task) on every (form, way the callable ends -- the 10 tags of Model/Action.v with 28 values /
        exception classes, among them KeyboardInterrupt, SystemExit, GeneratorExit, CancelledError, a user's BaseException --, capture mode)
        against ActionClass.enc_cls = [outcome; result taken from the value?; values taken from the value?], and Task.execute on random lists
        of 1-3 actions of mixed forms against ActionClass.enc_cls_task = [outcome; number of callables started].  These are the definitions
        C06_base_exception_leaves_every_action_class / C06_interrupt_never_swallowed / C06_interrupt_any_action_class speak about.
      NOT judged: doit.tools.LongRunning (documented: "swallow" KeyboardInterrupt while waiting for the command, always successful).

(1f) the working directory.  doit names its DB file relative to the directory it is started in (`.doit.db`; here `depdb`, spec `reldb`), JsonDB
    writes the file -- and dbm.dumb re-opens its files -- by NAME when the DB is flushed.  Task sets in which actions os.chdir() into
    sub-directories of the run directory (spec `chdir` of an action; file_dep / targets are given to doit by absolute name, spec `abspaths`,
    so that nothing but the DB depends on the working directory).  SYSTEMATIC block: fixed chain, the run cut at 4 points -- the directory
    changed by an earlier action of the interrupted task / by earlier tasks / by the interrupted action itself / twice -- x {KeyboardInterrupt,
    SystemExit, nothing: the run simply ends} x backend x {serial, thread, process} x {prior, fresh}; plus random chdir placements.
      * oracles as in (1e); additionally the DB is read (real backend class, in the directory doit was started in) after every COMPLETE run
        of the history too.  A task reported successful that the DB in the start directory does not record / the next run executes again is
        reported with the shape c06:chdir-diverts-db-flush (fixed in /repo by 017cc13; the pre-fix code is flagged on json and dbm).

(1g) the history BEFORE (and after) the interrupted run -- harness/c06_history.py (read its docstring).  Histories of 3-7 invocations of one
    task set between which the user switches `--check_file_uptodate` (records written under ANOTHER checker are met), removes targets and edits
    the configuration of doit.tools.config_changed items (Dependency.get_status answers "run" BEFORE it looks at the saved checker), edits and
    takes back sources / rev files; tasks with config_changed(<str | dict>), run_once, values-reading callables, getargs consumers, the
    constants False / True / None; one (thorough: sometimes two) invocation CUT by KeyboardInterrupt / SystemExit; serial + thread runner.
      * oracle (class Ledger, from the declared inputs and the states the actions log): EVERY run of the history skips exactly the tasks
        whose last flushed successful execution was made for the present state under the present checker setting (undetermined, not judged:
        the only known execution is recorded under the other checker); `forgot-after-interrupt` = a task reported successful by a CUT run and
        unchanged is executed again; `lying` = a skip without such an execution; record rule after every run (saved -> recorded with the
        values of that execution + those of its helpers, and its result; removed -> absent; others unchanged or absent).
      * correspondence: the real Dependency.save_success on a record written under the same / the other / no checker (real backends, flushed
        in between or not) against Model/SaveRec.v `save_success` evaluated in Coq: the definition C06_save_keeps_every_pair /
        C06_save_other_checker_drops_old / C06_save_same_checker_keeps_old speak about.
      * SYSTEMATIC block (same on every seed): fixed 4-task set, {targets removed, configuration + rev edited, sources edited, nothing} x
        {md5>timestamp, timestamp>md5, md5>md5, timestamp>timestamp} x backend, the cut in the last task; plus random histories.

(2) kill sweep.  The same child under
        strace -f -P <db files> -e trace=S -e inject=<s>:signal=SIGKILL:when=<k>
        S = openat,write,pwrite64,rename,unlink,ftruncate,fsync,fdatasync
    strace keeps one injection counter PER SYSCALL NAME, so the sweep is over (s, k): for every s in S and every k
    up to the number of calls of s on the DB files seen in a first un-injected counting run.  The signal arrives
    at entry of the call (its result is `= ?`), the disk holds exactly the calls before it: the prefix states of
    Model/Crash.v.  Files: name for json; name, name-journal, name-wal for sqlite3; name.dat/.dir/.bak for
    dbm.dumb.  With and without prior DB content, and with a task failing in the killed run (DbmDB.remove rewrites
    the .dir file in the middle of the run).
      * oracle (independent of the model): after each kill doit runs again normally; either exit code 3 (DB
        refused) or every task skipped as up-to-date has a logged completed execution ("done", written by the
        last action with the md5 of every dependency) whose dependency state equals the state at the skip, and
        its targets exist.  Any other exit code is reported.  After an accepted run a third run must skip
        everything (the DB is consistent again).
      * the disk found after each kill is classified against the conclusions of the Crash.v theorems:
        json: old file | new file | proper prefix of the new document;  sqlite3: old table | new table;
        dbm.dumb: per key old | new | absent | proper prefix of new | new + tail of old | index unreadable.
        Anything else is a correspondence disagreement (the step model would be wrong).
      * for JsonDB the observed file is also compared with Crash.json_crash evaluated in Coq on the same
        (old file, chunks written, crash index).

(3) dbm.dumb step model.  Random sessions (deletes, then stores of distinct keys, then close, values with lengths
    around the 512-byte block size) on the real dbm.dumb; the three files after the session are compared with
    Crash.dumb_session evaluated in Coq (run-length encoded).

(4) oracle assumptions.  J-prefix / J-extra of Properties/C06.v are exercised on every DB document and record
    seen: json.JSONDecoder rejects every proper prefix of an encoded object and every `new + tail of old`.

Encoding of an observed run (= Runner.enc_trace ++ [-1; rc]):
    [1,t] get_status  [2,t] skip_ignore  [3,t] skip_uptodate  [4,t,kind] add_failure (0 TaskFailed 1 TaskError
    2 UnmetDependency 3 DependencyError)  [5,t] execute_task  [6,t] add_success  [7,t] save_success
    [8,t] remove_success  [9,t] teardown_task  [10] Dependency.close  [11] / [12] the run ended (exit 3) by the cyclic-dependency /
    "waiting for each other" InvalidDodoFile of the dispatcher  [13] KeyboardInterrupt/SystemExit escaped
    DoitMain.run;  rc: exit code of DoitMain.run, 4 when the interrupt escaped, 97 any other escaping exception.
Encoding of the DB after an interrupted run (appended after the marker -7; = Crash.enc_spec): per task, in definition
    order, [-1] = no record | [1, v_0, ..., v_(K-1)] = the id of the JSON value stored under each of the K record keys
    seen in the case (sorted; -1 = the record has no such key); value ids number the distinct canonical JSON texts.
"""
import concurrent.futures, hashlib, json, os, re, shutil, subprocess, sys, time

HERE = os.path.dirname(os.path.abspath(__file__))
SYSCALLS = ['openat', 'write', 'pwrite64', 'rename', 'unlink', 'ftruncate', 'fsync', 'fdatasync']
DBNAME = 'depdb'


# =====================================================================================================
# child side: runs inside the subprocess, imports doit from PYTHONPATH (/repo)
# =====================================================================================================
ROOT = None     # child: the run directory; every file name of a spec is relative to it, whatever the working directory is by then


def _p(path):
    return os.path.join(ROOT, path) if ROOT and not os.path.isabs(path) else path


def _md5(path):
    try:
        with open(_p(path), 'rb') as f:
            return hashlib.md5(f.read()).hexdigest()
    except OSError:
        return None


def _read(path):
    try:
        with open(_p(path)) as f:
            return f.read()
    except OSError:
        return ''


def rev_of(t):
    """the `revision` a task works for: content hash of its rev file (not a file_dep: only the uptodate callable of the
    task, through the saved value 'rev', sees a change) or, without rev file, of its own source"""
    return hashlib.md5(_read(t.get('revfile') or t['file_dep'][0]).encode()).hexdigest()[:10]


def values_of(t, ai, rev):
    """the dict action ai of t returns when its spec says ret='dict': 'rev' + keys that depend on the action and on the
    revision (a record mixing two executions has keys of both)"""
    return {'rev': rev, 'a%d' % ai: [t['name'], ai], 'k' + rev[:3]: ai}


def full_values(t, rev):
    """task.values of a COMPLETED execution of t: the union of the dicts its actions return"""
    vals = {}
    for ai, a in enumerate(t['actions']):
        if a.get('ret') == 'dict':
            vals.update(values_of(t, ai, rev))
    return vals


def result_token(t, rev):
    """what save_success stores under 'result:' for a completed execution of t (task.result = the last action's result): the
    dict the last action returned, the md5 of the string it returned, nothing (None) when it returned True"""
    last = len(t['actions']) - 1
    ret = t['actions'][last].get('ret')
    if ret == 'dict':
        return values_of(t, last, rev)
    if ret == 'str':
        return hashlib.md5(result_string(t, last).encode('utf-8')).hexdigest()
    return None


def result_string(t, ai):
    return 'c06 result of %s action %d' % (t['name'], ai)


def dep_state_of(t):
    """everything the up-to-dateness of t depends on: md5 of every file_dep and of the rev file"""
    return [[p, _md5(p)] for p in sorted(t['file_dep'])] + ([[t['revfile'], _md5(t['revfile'])]] if t.get('revfile') else [])


class C06Abort(BaseException):
    """(1d) a BaseException subclass of the user's own that is neither KeyboardInterrupt nor SystemExit.  Module level: the process
    runner sends the CLASS of the exception through a queue (pickled by reference) and the master re-raises it"""


class _Log:
    """append-only, fsync'ed JSON lines: survives SIGKILL of the writer"""
    def __init__(self, path):
        self.fd = os.open(path, os.O_WRONLY | os.O_CREAT | os.O_APPEND, 0o644)

    def __call__(self, *rec):
        os.write(self.fd, (json.dumps(list(rec)) + '\n').encode())
        os.fsync(self.fd)


def child_main(spec_path):
    global ROOT
    spec = json.load(open(spec_path))
    os.chdir(spec['dir'])
    ROOT = spec['dir']
    log = _Log(spec['log'])
    run_id = spec['run_id']
    ids = {t['name']: i for i, t in enumerate(spec['tasks'])}
    log('begin', run_id, os.getpid())

    import doit.dependency as D
    import doit.control as C
    from doit.doit_cmd import DoitMain
    from doit.cmd_base import ModuleTaskLoader

    dep_state = dep_state_of

    def make_action(t, ai, act):
        if act.get('cmd') and act['kind'] in ('ok', 'fail') and ai < len(t['actions']) - 1 and not act.get('ret'):
            # cmd-action (a string: CmdAction, shell=True); never the last action (that one writes the targets and the log)
            return 'true' if act['kind'] == 'ok' else 'false'

        def action(v=None):
            log('start', run_id, t['name'], ai)
            kind = act['kind']
            if act.get('chdir'):
                # (1f) the action changes the working directory of the process (and never changes it back)
                os.makedirs(_p(act['chdir']), exist_ok=True)
                os.chdir(_p(act['chdir']))
                log('chdir', run_id, t['name'], ai, act['chdir'])
            if kind == 'kbd':
                raise KeyboardInterrupt('c06')
            if kind == 'sysexit':
                raise SystemExit(7)
            if kind == 'custombase':     # (1d): BaseException subclasses other than the two
                raise C06Abort('c06')
            if kind == 'genexit':
                raise GeneratorExit('c06')
            if kind == 'cancelled':
                import asyncio
                raise asyncio.CancelledError('c06')
            if kind == 'error':
                raise RuntimeError('c06 action error')
            if kind == 'fail':
                return False
            if ai == len(t['actions']) - 1:
                # deterministic product: content and mtime of the target are functions of the dependencies' contents
                h = hashlib.md5(('|'.join('%s' % _md5(p) for p in sorted(t['file_dep'])) + t['name']).encode()).hexdigest()
                for tg in t['targets']:
                    with open(_p(tg), 'w') as f:
                        f.write(h + '\n' + 'x' * t.get('pad', 0))
                    mt = 1600000000 + int(h[:6], 16)
                    os.utime(_p(tg), (mt, mt))
                if t.get('getargs'):
                    log('got', run_id, t['name'], v)
                log('done', run_id, t['name'], dep_state(t), full_values(t, rev_of(t)), result_token(t, rev_of(t)))
            if act.get('ret') == 'dict':
                return values_of(t, ai, rev_of(t))
            if act.get('ret') == 'str':
                return result_string(t, ai)
            return True
        action.__name__ = 'act_%s_%d' % (t['name'], ai)
        # (1e) WHICH class executes the callable: the forms create_action accepts and the classes doit ships
        cls = act.get('cls') or 'callable'
        if cls == 'tuple':
            return (action, [], {})
        if cls == 'pyaction':
            from doit.action import PythonAction
            return PythonAction(action)
        if cls == 'interactive':
            from doit.tools import PythonInteractiveAction
            return PythonInteractiveAction(action)
        if cls == 'cmdcallable':
            # CmdAction(callable): the callable computes the command (doit evaluates it twice per execution); never the last action
            from doit.action import CmdAction

            def command(v=None):
                return 'false' if action(v) is False else 'true'
            command.__name__ = 'cmd_%s_%d' % (t['name'], ai)
            return CmdAction(command)
        return action

    def make_uptodate(t):
        def saved_rev_is_current(task, values):
            # the magic `values` argument: the values saved by the last successful execution
            log('utd-values', run_id, t['name'], values)
            return values.get('rev') == rev_of(t)
        return saved_rev_is_current

    def make_abort_check(t):
        """(1d) uptodate callables of the aborting run: 'utd' raises at check time; 'saver' registers a value-saver that raises when
        the values are collected after the task's actions ran (it answers None = "no opinion"); 'stamp' is the documented helper
        doit.tools.check_timestamp_unchanged on a file that does not exist (its saver raises the OSError the docs announce)"""
        if t['abort'] == 'stamp':
            from doit.tools import check_timestamp_unchanged
            return check_timestamp_unchanged('c06-no-such-stamp-file')

        def raising_check(task, values):
            log('raise', run_id, 'utd', t['name'])
            raise RuntimeError('c06 uptodate check error')

        def registers_raising_saver(task, values):
            def raising_saver():
                log('raise', run_id, 'saver', t['name'])
                raise ValueError('c06 value saver error')
            task.value_savers.append(raising_saver)
            return None
        return raising_check if t['abort'] == 'utd' else registers_raising_saver

    def make_helpers(t):
        """(1g) uptodate items that answer before get_status looks at the record of the file_deps and / or keep a value of their own in
        the task's saved values: doit.tools.config_changed(<str or dict>) (value '_config_changed'), doit.tools.run_once (value
        'run-once'), the constants False / True / None.  t['cfg'] = the configuration value of THIS run (the user edits it between runs)"""
        from doit import tools
        items = []
        for h in t['helpers']:
            if h == 'config':
                val = t.get('cfg', 'v0')
                items.append(tools.config_changed({'opt': val, 'n': 1} if t.get('cfgform') == 'dict' else val))
            elif h == 'run_once':
                items.append(tools.run_once)
            else:
                items.append({'false': False, 'true': True, 'none': None}[h])
        return items

    def make_teardown(t):
        def td():
            log('teardown-action', run_id, t['name'])
        return td

    def make_task(t):
        def creator():
            # (1f) abspaths: doit is given absolute file names, so that nothing but the DB file depends on the working directory
            fn = (lambda x: os.path.join(spec['dir'], x)) if spec.get('abspaths') else (lambda x: x)
            d = dict(actions=[make_action(t, ai, a) for ai, a in enumerate(t['actions'])],
                     file_dep=[fn(x) for x in t['file_dep']], targets=[fn(x) for x in t['targets']], task_dep=list(t['task_dep']))
            if t.get('teardown'):
                d['teardown'] = [make_teardown(t)]
            if t.get('revfile'):
                d['uptodate'] = [make_uptodate(t)]
            if t.get('abort'):
                d['uptodate'] = d.get('uptodate', []) + [make_abort_check(t)]
            if t.get('helpers'):
                d['uptodate'] = d.get('uptodate', []) + make_helpers(t)
            if t.get('setup'):
                d['setup'] = list(t['setup'])
            if t.get('getargs'):
                d['getargs'] = {'v': (t['getargs'][0], t['getargs'][1])}
            # how the actions are executed (not modelled on the Coq side, see (1c)): capture mode and verbosity
            if t.get('io') is not None:
                d['io'] = dict(t['io'])
            if t.get('verbosity') is not None:
                d['verbosity'] = t['verbosity']
            return d
        return creator

    def state_of(task):
        return [dep_state(spec['tasks'][ids[task.name]]), all(os.path.exists(_p(x)) for x in task.targets)]

    class RecReporter:
        desc = 'c06 recording reporter'

        def __init__(self, outstream, options):
            pass

        def initialize(self, tasks, selected_tasks): pass

        def get_status(self, task):
            log('sel-state', run_id, task.name, *state_of(task))
            log('ev', run_id, 1, ids[task.name])

        def skip_ignore(self, task): log('ev', run_id, 2, ids[task.name])
        def skip_uptodate(self, task): log('ev', run_id, 3, ids[task.name])

        def add_failure(self, task, fail):
            kind = {'TaskFailed': 0, 'TaskError': 1, 'UnmetDependency': 2, 'DependencyError': 3}.get(fail.get_name(), 9)
            log('ev', run_id, 4, ids[task.name], kind)

        def execute_task(self, task): log('ev', run_id, 5, ids[task.name])
        def add_success(self, task): log('ev', run_id, 6, ids[task.name])
        def teardown_task(self, task): log('ev', run_id, 9, ids[task.name])
        def cleanup_error(self, exc): log('cleanup-error', run_id, repr(exc))
        def runtime_error(self, msg): log('runtime-error', run_id, msg)
        def complete_run(self): log('complete', run_id)

    # observation from outside: wrappers around the three Dependency methods the runner calls
    o_save, o_remove, o_close = D.Dependency.save_success, D.Dependency.remove_success, D.Dependency.close

    def w_save(self, task, result_hash=None):
        # the (key, value) pairs save_success hands to backend.set: `recd` of Model/Crash.v
        o_set = self._set

        def l_set(task_id, key, value):
            log('set', run_id, task_id, key, value)
            return o_set(task_id, key, value)
        self._set = l_set
        try:
            r = o_save(self, task, result_hash)
        finally:
            self._set = o_set
        log('ev', run_id, 7, ids[task.name])
        return r

    def w_remove(self, task):
        log('ev', run_id, 8, ids[task.name])
        return o_remove(self, task)

    def w_close(self):
        first = not self._closed
        r = o_close(self)
        if first:
            log('ev', run_id, 10)
        return r
    D.Dependency.save_success, D.Dependency.remove_success, D.Dependency.close = w_save, w_remove, w_close

    # the task table the run really uses (task_dep with the implicit ones, setup_tasks with the getargs producers, in the
    # order TaskControl left them -- that order depends on set iteration, hence on this process's hash seed)
    o_tdinit = C.TaskDispatcher.__init__

    def w_tdinit(self, tasks, targets, selected_tasks):
        o_tdinit(self, tasks, targets, selected_tasks)
        log('table', run_id, {nm: [list(t.task_dep), list(t.setup_tasks)] for nm, t in tasks.items()})
    C.TaskDispatcher.__init__ = w_tdinit

    # the two cyclic-dependency diagnostics (stop_marker of Model/Runner.v).  Not taken from stderr: with the thread runner sys.stderr may
    # be the capture buffer of an action that is running in another thread at that moment, and the message is then lost
    from doit.exceptions import InvalidDodoFile
    o_gen, o_hold = C.TaskDispatcher._gen_node, C.TaskDispatcher.cyclic_hold_error

    def w_gen(self, parent, task_name):
        try:
            return o_gen(self, parent, task_name)
        except InvalidDodoFile:
            log('mark', run_id, 11)
            raise

    def w_hold(self):
        log('mark', run_id, 12)
        return o_hold(self)
    C.TaskDispatcher._gen_node, C.TaskDispatcher.cyclic_hold_error = w_gen, w_hold

    o_uw = C.TaskDispatcher._update_waiting

    def w_uw(self, processed):
        if processed is not None and processed.run_status != 'run':
            log('wake', run_id, ids[processed.task.name], [ids[nd.task.name] for nd in processed.waiting_me])
        return o_uw(self, processed)
    C.TaskDispatcher._update_waiting = w_uw

    ns = {'task_' + t['name']: make_task(t) for t in spec['tasks']}
    ns['DOIT_CONFIG'] = {'reporter': RecReporter, 'default_tasks': list(spec['selected']), 'verbosity': 0}
    argv = ['run', '--backend', spec['backend'], '--db-file', spec['db']] + list(spec.get('args', []))
    rc = None
    try:
        rc = DoitMain(ModuleTaskLoader(ns)).run(argv)
    except (KeyboardInterrupt, SystemExit) as e:
        log('ev', run_id, 13)
        log('escaped', run_id, type(e).__name__)
        rc = 4
    except BaseException as e:   # noqa
        log('escaped', run_id, type(e).__name__, repr(e))
        rc = 97
    log('end', run_id, rc)
    sys.stdout.flush()
    sys.stderr.flush()
    os._exit(rc if isinstance(rc, int) else 96)


def dumb_driver_main(spec_path):
    """(3): one session on the real dbm.dumb: deletes, stores, close"""
    import dbm.dumb
    spec = json.load(open(spec_path))
    db = dbm.dumb.open(spec['name'], 'c')
    for k in spec['dels']:
        if k.encode() in db:
            del db[k]
    for k, c, n in spec['sets']:
        db[k] = bytes([c]) * n
    db.close()
    os._exit(0)


if __name__ == '__main__':
    if len(sys.argv) == 3 and sys.argv[1] == '--child':
        child_main(sys.argv[2])
    if len(sys.argv) == 3 and sys.argv[1] == '--dumb':
        dumb_driver_main(sys.argv[2])
    sys.exit(2)


# =====================================================================================================
# parent side
# =====================================================================================================
import common                      # noqa: E402
from common import Outcome         # noqa: E402
import runlib                      # noqa: E402
import c06_history                 # noqa: E402  (1g) the history before the interrupted run

BACKENDS = ('json', 'sqlite3', 'dbm')


def db_files(d, backend):
    base = os.path.join(d, DBNAME)
    if backend == 'json':
        return [base]
    if backend == 'sqlite3':
        return [base, base + '-journal', base + '-wal', base + '-shm']
    return [base, base + '.dat', base + '.dir', base + '.bak']


# ------------------------------------------------------------------ scenarios
def exec_attrs(rng):
    """task attributes that change HOW the actions of a task are executed and nothing about what the run has to do (1c):
    io capture True / False / None / not given, verbosity 0 / 1 / 2 / not given"""
    a = {}
    r = rng.random()
    if r < 0.35:
        a['io'] = {'capture': False}
    elif r < 0.45:
        a['io'] = {'capture': None}
    elif r < 0.6:
        a['io'] = {'capture': True}
    v = rng.choice([None, 0, 1, 2])
    if v is not None:
        a['verbosity'] = v
    return a


def capture_of(t):
    """label of the capture mode of a task spec"""
    return 'default' if t.get('io') is None else str(t['io'].get('capture', True))


def fixed_exec_scenario():
    """the task set of the systematic (seed-independent) block of (1c): executed in the order t3, t2, t1, t0"""
    ok = lambda **kw: dict(kind='ok', **kw)
    tasks = [
        dict(name='t0', file_dep=['src0'], targets=['out0'], task_dep=['t1'], actions=[ok(cmd=True), ok()], teardown=False, pad=0,
             io={'capture': False}, verbosity=2),
        dict(name='t1', file_dep=['src1', 'out2'], targets=['out1'], task_dep=[], actions=[ok(), ok()], teardown=True, pad=7,
             io={'capture': False}, verbosity=0),
        dict(name='t2', file_dep=['src2'], targets=['out2'], task_dep=['t3'], actions=[ok()], teardown=False, pad=0,
             io={'capture': None}, verbosity=1),
        dict(name='t3', file_dep=['src3'], targets=['out3'], task_dep=[], actions=[ok()], teardown=False, pad=300),
    ]
    return dict(tasks=tasks, selected=['t0'])


RUNNER_ARGS = {'serial': [], 'process': ['-n', '2'], 'thread': ['-n', '2', '-P', 'thread'], 'timestamp': ['--check_file_uptodate', 'timestamp']}


def gen_scenario(rng, n, big=False, select_all=False):
    """tasks t0..t(n-1); dependencies point to higher ids, so execution order differs from definition order.
    Every task has its own source file as file_dep (so it can be up-to-date) and one target."""
    tasks = []
    for i in range(n):
        later = list(range(i + 1, n))
        fdep = ['src%d' % i]
        if big:
            fdep += ['src%d_%03d_%s' % (i, j, 'p' * 40) for j in range(big)]
        tdep = []
        for j in later:
            r = rng.random()
            if r < 0.35:
                fdep.append('out%d' % j)        # file_dep on the other task's target: implicit task_dep
            elif r < 0.5:
                tdep.append('t%d' % j)
        tasks.append(dict(name='t%d' % i, file_dep=fdep, targets=['out%d' % i], task_dep=tdep,
                          actions=[dict(kind='ok') for _ in range(rng.choice([1, 1, 2]))],
                          teardown=rng.random() < 0.3, pad=rng.choice([0, 0, 7, 300])))
    for t in tasks:
        t.update(exec_attrs(rng))
        if len(t['actions']) > 1 and rng.random() < 0.4:
            t['actions'][0]['cmd'] = True     # cmd-action unless this is the action that is interrupted
    sel = ['t%d' % i for i in range(n)]
    rng.shuffle(sel)
    if rng.random() < 0.3 and not select_all:
        sel = sel[:max(1, n - 1)]
    return dict(tasks=tasks, selected=sel)


def sources_of(sc):
    """the files the harness writes (and modifies between runs): sources and rev files"""
    return sorted({p for t in sc['tasks'] for p in t['file_dep'] if p.startswith('src')} | {t['revfile'] for t in sc['tasks'] if t.get('revfile')})


def gen_value_scenario(rng, n):
    """task sets for the value half of the interrupt sweep: every task has 2-3 actions, earlier ones return value dicts
    or result strings; some tasks have a rev file + an uptodate callable reading the saved `values`; some take a value of a
    later task through getargs (the producer becomes a setup-task)"""
    tasks = []
    for i in range(n):
        later = list(range(i + 1, n))
        fdep, tdep = ['src%d' % i], []
        for j in later:
            r = rng.random()
            if r < 0.25:
                fdep.append('out%d' % j)
            elif r < 0.4:
                tdep.append('t%d' % j)
        na = rng.choice([2, 2, 3])
        acts = [dict(kind='ok', ret=rng.choice(['dict', 'dict', 'str', 'true'])) for _ in range(na)]
        acts[0]['ret'] = rng.choice(['dict', 'dict', 'dict', 'str'])
        t = dict(name='t%d' % i, file_dep=fdep, targets=['out%d' % i], task_dep=tdep, actions=acts,
                 teardown=rng.random() < 0.2, pad=rng.choice([0, 7]),
                 revfile=('rev%d' % i) if rng.random() < 0.6 else None, getargs=None)
        tasks.append(t)
    # at least one value-checking task; its first action is the one that returns 'rev'
    if not any(t['revfile'] for t in tasks):
        k = rng.randrange(n)
        tasks[k]['revfile'] = 'rev%d' % k
    for t in tasks:
        if t['revfile']:
            t['actions'][0]['ret'] = 'dict'
    # getargs consumers: from a later task (whose first action then returns a dict)
    for i in range(n - 1):
        if rng.random() < 0.6 or (i == 0 and not any(t['getargs'] for t in tasks)):
            j = rng.randrange(i + 1, n)
            tasks[j]['actions'][0]['ret'] = 'dict'
            tasks[i]['getargs'] = ['t%d' % j, rng.choice(['rev', 'rev', None])]
    for t in tasks:
        t.update(exec_attrs(rng))
    sel = ['t%d' % i for i in range(n)]
    rng.shuffle(sel)
    return dict(tasks=tasks, selected=sel)


def write_source(d, name, version):
    p = os.path.join(d, name)
    # the size (hence the length of the record doit stores) grows with the version for half of the sources and shrinks for
    # the others: dbm.dumb then overwrites records in place with longer / shorter ones
    grows = int(hashlib.md5(name.encode()).hexdigest()[:2], 16) % 2 == 0
    with open(p, 'w') as f:
        f.write('%s version %d\n' % (name, version) + 'y' * (95 if (version > 0) == grows else 0))
    mt = 1500000000 + 10 * version + (int(hashlib.md5(name.encode()).hexdigest()[:4], 16) % 7)
    os.utime(p, (mt, mt))


ABORT_ACTION_KINDS = {'custombase': 'C06Abort', 'genexit': 'GeneratorExit', 'cancelled': 'CancelledError'}   # kind -> class that must escape
ABORT_TASK_KINDS = ('utd', 'saver', 'stamp')     # (1d): the task gets an uptodate callable that raises / registers a raising value-saver
ABORT_GRAPH_KINDS = ('cycle',)                   # (1d): task_dep / setup edges closing a cycle are added for the aborting run


def with_kinds(sc, kinds, edges=None):
    """kinds: {task name: (action index, kind)} -> copy of the task list with that action replaced (kinds of ABORT_TASK_KINDS: the
    task gets the attribute `abort` instead); edges: [[from, to, 'task_dep' | 'setup']] added to the tasks"""
    tasks = json.loads(json.dumps(sc['tasks']))
    for t in tasks:
        if t['name'] in kinds:
            ai, kind = kinds[t['name']]
            if kind in ABORT_TASK_KINDS:
                t['abort'] = kind
            else:
                act = t['actions'][min(ai, len(t['actions']) - 1)]
                act['kind'] = kind
                if kind == 'fail':
                    act.pop('cls', None)    # a failure by `return False` is a PythonAction matter (PythonInteractiveAction ignores the value)
        for a, b, how in (edges or []):
            if a == t['name']:
                t[how] = list(t.get(how) or []) + [b]
    return tasks


def run_child(d, sc, backend, run_id, kinds=None, args=(), strace=None, timeout=120, edges=None):
    """one doit invocation in directory d.  strace: None | dict(out=path, inject=(syscall, k) or None)"""
    # (1f) reldb: the DB file is named the way it is by default -- relative to the directory doit is started in
    spec = dict(dir=d, db=DBNAME if sc.get('reldb') else os.path.join(d, DBNAME), abspaths=bool(sc.get('abspaths')), backend=backend,
                tasks=with_kinds(sc, kinds or {}, edges), selected=sc['selected'], args=list(args), log='c06.log', run_id=run_id)
    sp = os.path.join(d, 'c06-spec-%d.json' % run_id)
    with open(sp, 'w') as f:
        json.dump(spec, f)
    cmd = [common.PY, os.path.join(HERE, 'c06.py'), '--child', sp]
    if strace is not None:
        pre = ['strace', '-f', '-o', strace['out'], '-s', '200000', '-xx']
        for p in db_files(d, backend):
            pre += ['-P', p]
        pre += ['-e', 'trace=' + ','.join(SYSCALLS)]
        if strace.get('inject'):
            pre += ['-e', 'inject=%s:signal=SIGKILL:when=%d' % strace['inject']]
        cmd = pre + cmd
    try:
        p = subprocess.run(cmd, cwd=d, env=common.impl_env(), stdout=subprocess.PIPE, stderr=subprocess.PIPE, timeout=timeout)
        return p.returncode, p.stderr.decode('utf-8', 'replace')
    except subprocess.TimeoutExpired:
        return 124, 'timeout'


def read_log(d):
    recs = []
    p = os.path.join(d, 'c06.log')
    if os.path.exists(p):
        for line in open(p):
            try:
                recs.append(json.loads(line))
            except ValueError:
                pass
    return recs


def run_view(recs, run_id):
    """what one run did, from the log"""
    v = dict(events=[], trace=[], rc=None, done={}, sel={}, wake={}, ended=False, escaped=None, started=[],
             vals={}, utdv=[], got=[], sets={}, rtok={}, table=None, raised=[], marks=[], chdirs=[])
    for r in recs:
        if len(r) < 2 or r[1] != run_id:
            continue
        k = r[0]
        if k == 'ev':
            v['events'].append(r[2:])
            v['trace'] += r[2:]
        elif k == 'done':
            v['done'][r[2]] = r[3]
            v['vals'][r[2]] = r[4] if len(r) > 4 else {}
            v['rtok'][r[2]] = r[5] if len(r) > 5 else None
        elif k == 'table':
            v['table'] = r[2]
        elif k == 'utd-values':
            v['utdv'].append((r[2], r[3]))
        elif k == 'got':
            v['got'].append((r[2], r[3]))
        elif k == 'set':
            v['sets'].setdefault(r[2], []).append((r[3], r[4]))
        elif k == 'sel-state':
            v['sel'][r[2]] = (r[3], r[4])
        elif k == 'wake':
            v['wake'][r[2]] = r[3]
        elif k == 'end':
            v['ended'] = True
            v['rc'] = r[2]
        elif k == 'escaped':
            v['escaped'] = r[2]
        elif k == 'start':
            v['started'].append((r[2], r[3]))
        elif k == 'raise':
            v['raised'].append((r[2], r[3]))
        elif k == 'mark':
            v['marks'].append(r[2])
        elif k == 'chdir':
            v['chdirs'].append(r[2:])
    return v


def ev_tasks(v, code):
    return [e[1] for e in v['events'] if e[0] == code]


class Book:
    """the harness's own book-keeping of what a flushed DB must contain: task -> dependency state of the
    successful execution that was saved last (save_success/remove_success of runs that reached close)"""
    def __init__(self):
        self.rec = {}
        self.vals = {}     # task -> the values that execution returned (what `values` / getargs may show afterwards)
        self.rtok = {}     # task -> the result that execution left under 'result:' (what a getargs consumer's result_dep compares)

    def apply(self, sc, v):
        names = [t['name'] for t in sc['tasks']]
        pending, pvals, ptok = dict(self.rec), dict(self.vals), dict(self.rtok)
        closed = False
        for e in v['events']:
            if e[0] == 7:
                pending[names[e[1]]] = v['done'].get(names[e[1]])
                pvals[names[e[1]]] = v['vals'].get(names[e[1]], {})
                ptok[names[e[1]]] = v['rtok'].get(names[e[1]])
            elif e[0] == 8:
                pending.pop(names[e[1]], None)
                pvals.pop(names[e[1]], None)
                ptok.pop(names[e[1]], None)
            elif e[0] == 10:
                closed = True
        if closed:
            self.rec, self.vals, self.rtok = pending, pvals, ptok
        return closed

    def enrich(self, sc, v):
        """getargs consumers: doit gives them an implicit result_dep on the producer -- the consumer is up-to-date only if the
        producer's recorded result equals the one the consumer saved (values['_result:<producer>']) at its own last success.
        Adds, to the logged state of a consumer at its selection and at its completion, the producer's result visible at that
        moment (this run's, if the producer was saved earlier in this run, else the flushed one of the book), and to the values
        of its completed execution the '_result:<producer>' entry.  self = the book BEFORE the run."""
        names = [t['name'] for t in sc['tasks']]
        ev = v['events']
        for t in sc['tasks']:
            if not t.get('getargs'):
                continue
            c, prod = t['name'], t['getargs'][0]

            def visible(upto):
                tok = self.rtok.get(prod) if prod in self.rec else None
                for e in ev[:upto]:
                    if e[:2] == [7, names.index(prod)]:
                        tok = v['rtok'].get(prod)
                    elif e[:2] == [8, names.index(prod)]:
                        tok = None
                return tok
            if c in v['sel'] and [1, names.index(c)] in ev:
                st, ok = v['sel'][c]
                v['sel'][c] = (st + [['_result:' + prod, visible(ev.index([1, names.index(c)]))]], ok)
            if c in v['done']:
                upto = ev.index([7, names.index(c)]) if [7, names.index(c)] in ev else len(ev)
                tok = visible(upto)
                v['done'][c] = v['done'][c] + [['_result:' + prod, tok]]
                v['vals'][c] = dict(v['vals'].get(c, {}), **{'_result:' + prod: tok})
        return v

    def saved_values(self, name):
        """what Dependency.get_values(name) may return: the values of the last flushed successful execution"""
        return self.vals.get(name, {}) if name in self.rec else {}

    def utd(self, name, sel):
        state, targets_ok = sel
        if any(isinstance(x[0], str) and x[0].startswith('_result:') and x[1] is None for x in state):
            return False    # result_dep: no recorded result of the producer -> never up-to-date
        return bool(targets_ok and name in self.rec and self.rec[name] == state)


def model_rows(sc, kinds, utd_names, table=None):
    """the task table as TaskControl.__init__ leaves it, for Model/Runner.v.  table = {task: [task_dep, setup_tasks]} as logged
    by the run itself (the order of implicit task_deps follows the iteration order of a set of strings in THAT process); without
    it the table is recomputed here with the real TaskControl"""
    names = [t['name'] for t in sc['tasks']]
    ids = {nm: i for i, nm in enumerate(names)}
    if table is None:
        from doit.task import Task
        from doit.control import TaskControl
        tl = [Task(t['name'], [], file_dep=t['file_dep'], targets=t['targets'], task_dep=t['task_dep'], setup=list(t.get('setup') or []),
                   getargs=({'v': tuple(t['getargs'])} if t.get('getargs') else {})) for t in sc['tasks']]
        tc = TaskControl(tl)
        table = {nm: [list(tc.tasks[nm].task_dep), list(tc.tasks[nm].setup_tasks)] for nm in names}
    rows = []
    for t in sc['tasks']:
        task_dep, setup = table[t['name']]
        kind = (kinds or {}).get(t['name'], (0, 'ok'))[1]
        rows.append(dict(task_dep=[ids[x] for x in task_dep], setup=[ids[x] for x in setup], calc_dep=[], teardown=bool(t.get('teardown')),
                         dbignore=False, check='utd' if t['name'] in utd_names else 'run', argerr=False,
                         outcome={'ok': 'ok', 'fail': 'fail', 'error': 'error', 'kbd': 'interrupt', 'sysexit': 'interrupt'}.get(kind, 'ok'),
                         calc_task=[], calc_file=[], calc_calc=[]))
    return rows


def open_backend(d, backend):
    from doit.dependency import JsonDB, DbmDB, SqliteDB, JSONCodec
    cls = {'json': JsonDB, 'dbm': DbmDB, 'sqlite3': SqliteDB}[backend]
    return cls(os.path.join(d, DBNAME), JSONCodec())


def recorded_tasks(d, backend, names):
    """which tasks the DB on disk records (real backend class, on a copy so that nothing is modified)"""
    cp = d + '-peek'
    shutil.rmtree(cp, ignore_errors=True)
    os.makedirs(cp)
    for p in db_files(d, backend):
        if os.path.exists(p):
            shutil.copy2(p, cp)
    try:
        db = open_backend(cp, backend)
        got = sorted(nm for nm in names if db.in_(nm))
        if backend == 'sqlite3':
            db._conn.close()
        elif backend == 'dbm':
            db._dbm.close()
        return got
    except Exception as e:   # noqa
        return ['<%s>' % type(e).__name__]
    finally:
        shutil.rmtree(cp, ignore_errors=True)


def db_records(d, backend):
    """{task: record} as the real backend class reads the DB on disk (on a copy, so that nothing is modified); the whole
    record of every task, not only the keys the harness knows about"""
    cp = d + '-recs'
    shutil.rmtree(cp, ignore_errors=True)
    os.makedirs(cp)
    for p in db_files(d, backend):
        if os.path.exists(p):
            shutil.copy2(p, cp)
    try:
        db = open_backend(cp, backend)
        if backend == 'json':
            recs = dict(db._db)
        elif backend == 'dbm':
            recs = {}
            for k in db._dbm.keys():
                name = k.decode('utf-8')
                db.get(name, 'deps:')
                recs[name] = db._db.get(name)
            db._dbm.close()
        else:
            recs = {}
            for row in db._conn.execute('select task_id from doit').fetchall():
                db.get(row['task_id'], 'deps:')
                recs[row['task_id']] = db._cache.get(row['task_id'])
            db._conn.close()
        return json.loads(json.dumps(recs))
    except Exception as e:   # noqa
        return {'<unreadable>': '%s: %s' % (type(e).__name__, e)}
    finally:
        shutil.rmtree(cp, ignore_errors=True)


def stray_db_files(d):
    """DB files found anywhere below the run directory but not in it (diagnosis only: where a diverted flush went)"""
    found = []
    for dp, dns, fns in os.walk(d):
        if os.path.abspath(dp) != os.path.abspath(d):
            found += [os.path.relpath(os.path.join(dp, f), d) for f in fns if f == DBNAME or f.startswith(DBNAME + '.') or f.startswith(DBNAME + '-')]
    return sorted(found)


def canon(x):
    return json.dumps(x, sort_keys=True)


# ------------------------------------------------------------------ (1) interrupt sweep
def trace_oracle(events, k):
    """the conclusions of C06_interrupt_flush on an observed trace (k = interrupted task); returns a complaint or None"""
    if events.count([10]) != 1:
        return 'Dependency.close ran %d times' % events.count([10])
    ci = events.index([10])
    pre, post = events[:ci], events[ci + 1:]
    if any(e[0] not in (9, 13) for e in post):
        return 'event other than teardown after close: %s' % post
    if not pre or pre[-1] != [5, k]:
        return 'the event before close is not execute(%d)' % k
    body = pre[:-1]
    for i, e in enumerate(body):
        if e[0] in (6, 7):
            j = i if e[0] == 7 else i - 1
            if j < 1 or body[j - 1] != [5, e[1]] or body[j] != [7, e[1]] or j + 1 >= len(body) or body[j + 1] != [6, e[1]]:
                return 'save/success of %d not in an execute;save;success triple' % e[1]
        if e[0] in (6, 7, 8) and e[1] == k:
            return 'event %s for the interrupted task' % e
        if e[0] in (9, 10):
            return 'teardown/close before the interruption'
    return None


def value_complaints(sc, v, book, what_run):
    """oracle on what the uptodate callables (magic `values` argument) and the getargs consumers of one run were shown: only
    values of a successful execution that was saved and flushed (book = the harness's record BEFORE this run) or saved
    earlier in this very run"""
    names = [t['name'] for t in sc['tasks']]
    byname = {t['name']: t for t in sc['tasks']}
    out = []
    for name, seen in v['utdv']:
        want = book.saved_values(name)
        if canon(seen) != canon(want):
            out.append(('values', '%s: the uptodate callable of %s was given values=%s, the last successful flushed execution of it returned %s'
                        % (what_run, name, canon(seen), canon(want))))
    saved_here = {names[e[1]] for e in v['events'] if e[0] == 7}
    for name, got in v['got']:
        prod, key = byname[name]['getargs']
        src = v['vals'].get(prod, {}) if prod in saved_here else book.saved_values(prod)
        want = src if key is None else src.get(key)
        if canon(got) != canon(want):
            out.append(('getargs', '%s: %s received %s through getargs (%s, %s); the last successful execution of %s returned %s'
                        % (what_run, name, canon(got), prod, key, prod, canon(want))))
    return out


def record_complaints(sc, v1, rec0, rec1, target, closed):
    """the record rule of the property on the DB left by the interrupted run, per task:
         saved in this run (save_success, no later remove_success, DB flushed) -> recorded, with the values of that execution;
         remove_success in this run                                            -> absent;
         anything else (the interrupted task, the tasks not started, the skipped ones) -> the interrupted run records nothing
         about it: its record is exactly the record found before the run, or absent -- never anything else"""
    names = [t['name'] for t in sc['tasks']]
    out = []
    if '<unreadable>' in rec0 or '<unreadable>' in rec1:
        return [('unreadable', 'DB not readable before/after the interrupted run: %s %s' % (rec0.get('<unreadable>'), rec1.get('<unreadable>')))]
    last = {}
    for e in v1['events']:
        if e[0] in (7, 8):
            last[names[e[1]]] = e[0]
    for name in names:
        before, after = rec0.get(name), rec1.get(name)
        role = 'interrupted' if name == target else ('not started' if [5, names.index(name)] not in v1['events'] else 'executed')
        if last.get(name) == 7 and closed:
            if after is None or canon(after.get('_values_:')) != canon(v1['vals'].get(name, {})):
                out.append(('saved-values', 'task %s was saved by the interrupted run with values %s; its record holds %s'
                            % (name, canon(v1['vals'].get(name, {})), canon(None if after is None else after.get('_values_:')))))
        elif last.get(name) == 8:
            if after is not None:
                out.append(('removed', 'task %s failed in the interrupted run (remove_success) but is recorded: %s' % (name, canon(after))))
        elif after is not None and canon(after) != canon(before):
            out.append(('record', 'LYING DB: the %s task %s was neither saved nor removed by the interrupted run, but its record changed: '
                        'before %s, after %s' % (role, name, canon(before), canon(after))))
    return out


def interrupt_case(job):
    """history of complete runs + one interrupted run + DB inspection + next run.  Returns a dict of observations (no doit
    import needed here except for the DB inspection)."""
    d, sc, backend, variant, target, ai, kind, args2 = (job[x] for x in ('dir', 'sc', 'backend', 'variant', 'target', 'ai', 'kind', 'args'))
    names = [t['name'] for t in sc['tasks']]
    history = job.get('history')
    if history is None:
        history = [] if variant == 'fresh' else [job.get('modify', [])]
    revert = job.get('revert', [])
    res = dict(job=dict(replay=job.get('replay', 'interrupt'), edges=job.get('edges'), backend=backend, variant=variant, target=target, ai=ai, kind=kind, args=args2,
                        modify=job.get('modify', []), history=history, revert=revert, failing=job.get('failing'),
                        runner=job.get('runner', 'serial'), tasks=sc['tasks'], selected=sc['selected'],
                        reldb=bool(sc.get('reldb')), abspaths=bool(sc.get('abspaths'))), problems=[], complaints=[])
    os.makedirs(d, exist_ok=True)
    version = {}
    for s in sources_of(sc):
        version[s] = 0
        write_source(d, s, 0)
    book = Book()
    rid = 0
    for mods in history:
        rc, err = run_child(d, sc, backend, rid, args=args2)
        v0 = book.enrich(sc, run_view(read_log(d), rid))
        res['complaints'] += value_complaints(sc, v0, book, 'complete run %d' % rid)
        if rc != 0 and 'thread' in args2 and 'io.UnsupportedOperation' in err:
            # the complete run that prepares the history died of the known C17 finding (thread-overlap-python-actions: the
            # process-global sys.stdout is swapped per action, so a cmd-action with io.capture False can pick up, as its
            # stdout, the Writer another thread's python-action has installed at that moment -- Writer.fileno() raises
            # io.UnsupportedOperation and the run ends with exit 3).  A race in doit's thread runner, not a C06 matter:
            # the case cannot be set up, it is counted and skipped
            res['skipped_known_c17'] = True
            return res
        if rc != 0 or not book.apply(sc, v0):
            res['problems'].append(('harness', 'prior run failed rc=%s %s' % (rc, err[-300:])))
            if sc.get('reldb') and v0['chdirs']:
                res['complaints'].append(('db-complete-run', 'the complete run %d (nothing interrupts it; working directory changed by %s) exits %s: %s; tasks it reported '
                                          'successful: %s; stray DB files: %s' % (rid, [c[:2] for c in v0['chdirs']], rc, err.strip().splitlines()[-1:],
                                                                                  [names[i] for i in ev_tasks(v0, 6)], stray_db_files(d))))
            return res
        if sc.get('reldb'):
            # (1f) "... or simply ending": what the DB records after a COMPLETE run in which an action changed the working directory
            got0 = recorded_tasks(d, backend, names)
            if got0 != sorted(book.rec):
                res['complaints'].append(('db-complete-run', 'after the complete run %d (exit 0, working directory changed by %s) the %s DB in the directory '
                                          'doit was started in records %s, the tasks saved and flushed are %s; stray DB files: %s'
                                          % (rid, [c[:2] for c in v0['chdirs']], backend, got0, sorted(book.rec), stray_db_files(d))))
        for s in mods:
            version[s] += 1
            write_source(d, s, version[s])
        rid += 1
    kinds = {target: (ai, kind)} if kind not in ABORT_GRAPH_KINDS else {}
    if job.get('failing'):
        kinds[job['failing']] = (0, 'fail')
    rec0 = db_records(d, backend)
    rc1, err1 = run_child(d, sc, backend, rid, kinds=kinds, args=args2, edges=job.get('edges'))
    v1 = book.enrich(sc, run_view(read_log(d), rid))
    if rc1 == 3 and v1['marks']:
        # the InvalidDodoFile that left run_all (after finish()) and that DoitMain.run turned into exit 3: stop_marker of Model/Runner.v
        v1['events'].append([v1['marks'][-1]])
        v1['trace'] += [v1['marks'][-1]]
    res['err1'] = err1[-600:]
    rec1 = db_records(d, backend)
    res['rc1'], res['v1'], res['rec0'], res['rec1'] = rc1, v1, rec0, rec1
    utd1 = {nm for nm in names if nm in v1['sel'] and book.utd(nm, v1['sel'][nm])}
    res['utd1'] = sorted(utd1)
    res['kinds'] = kinds
    res['complaints'] += value_complaints(sc, v1, book, 'interrupted run')
    closed = book.apply(sc, v1)
    res['closed'] = closed
    res['complaints'] += record_complaints(sc, v1, rec0, rec1, target, closed)
    res['recorded'] = recorded_tasks(d, backend, names)
    res['expected_recorded'] = sorted(book.rec)
    res['stray1'] = stray_db_files(d) if sc.get('reldb') else []
    for s in revert:   # the user takes the edit back: the state the prior record was made for is the present state again
        if version.get(s, 0) > 0:
            version[s] -= 1
            write_source(d, s, version[s])
    rid += 1
    rc2, err2 = run_child(d, sc, backend, rid, args=args2)
    v2 = book.enrich(sc, run_view(read_log(d), rid))
    res['rc2'], res['v2'], res['err2'] = rc2, v2, err2[-400:]
    res['expect_skip2'] = sorted(nm for nm in names if nm in v2['sel'] and book.utd(nm, v2['sel'][nm]))
    res['complaints'] += value_complaints(sc, v2, book, 'run after the interrupted run')
    book.apply(sc, v2)
    shutil.rmtree(d, ignore_errors=True)
    return res


def db_model(names, rec0, rec1, sets):
    """Coq term (with a hole @TR@ for the trace) for the DB after the run according to Model/Crash.v, and the encoding of the
    DB the real backend reads after the run.  Keys and JSON values are numbered per case."""
    if '<unreadable>' in rec0 or '<unreadable>' in rec1 or any(nm not in names for nm in list(rec0) + list(rec1) + list(sets)):
        return None, None
    keys = sorted({k for r in list(rec0.values()) + list(rec1.values()) for k in r} | {k for l in sets.values() for k, _ in l})
    kid = {k: i for i, k in enumerate(keys)}
    vals = {}

    def vid(x):
        return vals.setdefault(canon(x), len(vals))
    pairs = lambda items: '[' + '; '.join('(%d, %d%%Z)' % (kid[k], vid(x)) for k, x in items) + ']'
    m0 = 'mk_spec [' + '; '.join('(%d, %s)' % (names.index(nm), pairs(sorted(rec0[nm].items()))) for nm in names if nm in rec0) + ']'
    recd = ('(fun n : name => (match n with ' + ' '.join('| %d => %s' % (names.index(nm), pairs(l)) for nm, l in sorted(sets.items()))
            + ' | _ => [] end : list (N * Z)))')
    term = 'enc_spec %s %s (session_db %s (%s) @TR@)' % (runlib.nl(range(len(names))), runlib.nl(range(len(keys))), recd, m0)
    exp = []
    for nm in names:
        r = rec1.get(nm)
        exp += [-1] if r is None else [1] + [vid(r[k]) if k in r else -1 for k in keys]
    return term, exp


def model_case(sc, job, res, desc, sfx):
    """the correspondence case of one serial run that ended by an exception: trace + exit code of Model/Runner.v run_serial and --
    through Crash.db_ops on that trace -- the whole DB the run leaves, against what was observed.  Returns (case, DB compared?)"""
    names = [t['name'] for t in sc['tasks']]
    ids = {nm: i for i, nm in enumerate(names)}
    v1 = res['v1']
    rows = model_rows(sc, res['kinds'], set(res['utd1']), v1.get('table'))
    wake = {int(p): o for p, o in v1['wake'].items()}
    defs = '\n'.join([runlib.coq_table(rows, sfx), runlib.coq_wake(wake, sfx)])
    cont = 'true' if '--continue' in job['args'] else 'false'
    expected = v1['trace'] + [-1, res['rc1'] if res['rc1'] is not None else 95]
    dbm, dbx = db_model(names, res['rec0'], res['rec1'], v1['sets'])
    if dbm is None:
        expr = ('let r := run_serial tb%s wk%s (fun x => x) %s false FUEL %s in enc_trace (fst r) ++ [-1; zN (snd r)]%%Z'
                % (sfx, sfx, cont, runlib.nl([ids[x] for x in sc['selected']])))
    else:
        expr = ('let r := run_serial tb%s wk%s (fun x => x) %s false FUEL %s in '
                'enc_trace (fst r) ++ [-1; zN (snd r)]%%Z ++ ((-7)%%Z :: %s)'
                % (sfx, sfx, cont, runlib.nl([ids[x] for x in sc['selected']]), dbm.replace('@TR@', '(fst r)')))
        expected = expected + [-7] + dbx
    return dict(defs=defs, model=expr, expected=expected, desc=('interrupt-trace+db', desc)), int(dbm is not None)


def part_interrupt(ctx, out, cases):
    rng = ctx.rng
    jobs = []
    n_sc = ctx.n(3, 10)
    scs = [gen_scenario(rng, n) for n in ([2, 3, 4] if ctx.quick else [2, 2, 3, 3, 3, 4, 4, 4, 4, 3])][:n_sc]
    base = ctx.subdir('intr')
    for si, sc in enumerate(scs):
        names = [t['name'] for t in sc['tasks']]
        for backend in BACKENDS:
            for t in sc['tasks']:
                for ai in range(len(t['actions'])):
                    variants = ['fresh', 'prior'] + (['prior-fail'] if (not ctx.quick or rng.random() < 0.4) else [])
                    for variant in variants:
                        kind_list = [rng.choice(['kbd', 'sysexit'])] if ctx.quick else ['kbd', 'sysexit']
                        for kind in kind_list:
                            job = dict(dir=os.path.join(base, 'c%d' % len(jobs)), sc=sc, backend=backend, variant=variant,
                                       target=t['name'], ai=ai, kind=kind, args=[], modify=[], failing=None, runner='serial')
                            if variant != 'fresh':
                                srcs = sources_of(sc)
                                job['modify'] = sorted(set(rng.sample(srcs, rng.randrange(1, len(srcs) + 1)) + ['src' + t['name'][1:]]))
                            if variant == 'prior-fail':
                                others = [x for x in names if x != t['name']]
                                job['failing'] = rng.choice(others)
                                job['modify'] = sorted(set(job['modify'] + ['src' + job['failing'][1:]]))
                                job['args'] = ['--continue']
                            jobs.append(job)
    # ---- value half: several actions, earlier ones return value dicts / result strings; the interrupted task succeeded before
    # with non-empty values; uptodate callables reading the saved `values`; getargs consumers; serial and thread runner
    vscs = [gen_value_scenario(rng, n) for n in ([3, 2] if ctx.quick else [3, 2, 3, 4, 3, 2])]
    n_old = len(jobs)
    for si, sc in enumerate(vscs):
        srcs = sources_of(sc)
        for t in sc['tasks']:
            own = ['src' + t['name'][1:]] + ([t['revfile']] if t['revfile'] else [])
            for ai in range(len(t['actions'])):
                if ctx.quick and ai == 0 and rng.random() < 0.5:
                    continue    # nothing was returned yet when the first action is interrupted: sampled in the quick tier
                for backend in BACKENDS:
                    for runner in ('serial', 'thread'):
                        for variant in ('prior', 'prior-revert', 'prior2'):
                            if ctx.quick and variant == 'prior2' and rng.random() < 0.5:
                                continue
                            if ctx.quick and runner == 'thread' and backend != 'json' and rng.random() < 0.5:
                                continue    # sampled in the quick tier (JsonDB is the backend that dumps its whole cache)
                            # the interrupted task must be out of date in the interrupted run: its source, its rev file or both
                            must = rng.choice([own[:1], own[-1:], own])
                            last = sorted(set(rng.sample(srcs, rng.randrange(0, len(srcs) + 1)) + must))
                            history = [last] if variant != 'prior2' else [sorted(set(rng.sample(srcs, rng.randrange(1, len(srcs) + 1)) + own)), last]
                            revert = []
                            if variant == 'prior-revert':   # the edit is taken back after the interrupted run: all of it / sources only / rev files only
                                revert = rng.choice([last, [x for x in last if x.startswith('src')], [x for x in last if x.startswith('rev')]])
                            jobs.append(dict(dir=os.path.join(base, 'v%d' % len(jobs)), sc=sc, backend=backend, variant=variant,
                                             target=t['name'], ai=ai, kind=rng.choice(['kbd', 'sysexit']), modify=last, history=history,
                                             revert=revert, failing=None, runner=runner,
                                             args=['-n', '2', '-P', 'thread'] if runner == 'thread' else []))
    out.extra['interrupt_value_runs'] = len(jobs) - n_old
    if not ctx.quick:   # parallel runners and the other checker: oracles only
        extra = []
        for job in jobs:
            if job['runner'] == 'serial' and rng.random() < 0.25:
                j2 = dict(job)
                j2['dir'] = job['dir'] + 'p'
                j2['runner'] = rng.choice(['process', 'thread', 'timestamp'])
                j2['args'] = list(job['args']) + RUNNER_ARGS[j2['runner']]
                extra.append(j2)
        jobs += extra
    # ---- (1c) systematic block, the same on every seed (no PRNG draw): the interrupt inside every action of the tasks whose
    # output is NOT captured (capture False / None), every backend, every runner flavour, both exceptions
    fsc = fixed_exec_scenario()
    n_fixed = 0
    for backend in BACKENDS:
        for runner in ('serial', 'thread', 'process'):
            points = [(t['name'], ai) for t in fsc['tasks'] if capture_of(t) in ('False', 'None') for ai in range(len(t['actions']))]
            if ctx.quick and runner != 'serial':
                # quick tier, parallel runners: after the cmd-action of t0 (capture False), first action of t1 (capture False), t2 (capture None)
                points = [pt for pt in points if pt in (('t0', 1), ('t1', 0), ('t2', 0))]
            for pi, (target, ai) in enumerate(points):
                for variant in (('prior',) if ctx.quick else ('prior', 'fresh')):
                    for kind in ((('kbd', 'sysexit')[(pi + BACKENDS.index(backend)) % 2],) if ctx.quick else ('kbd', 'sysexit')):
                        jobs.append(dict(dir=os.path.join(base, 'x%d' % len(jobs)), sc=fsc, backend=backend, variant=variant, target=target, ai=ai,
                                         kind=kind, modify=sources_of(fsc) if variant == 'prior' else [], failing=None, runner=runner,
                                         args=list(RUNNER_ARGS[runner]), fixed=True))
                        n_fixed += 1
    out.extra['interrupt_runs_systematic_execution_modes'] = n_fixed
    with concurrent.futures.ThreadPoolExecutor(max_workers=common.NCPU) as ex:
        results = list(ex.map(interrupt_case, jobs))
    n_model = n_dbmodel = 0
    for job, res in zip(jobs, results):
        sc = job['sc']
        names = [t['name'] for t in sc['tasks']]
        ids = {nm: i for i, nm in enumerate(names)}
        desc = dict(res['job'])
        shape = 'interrupt:%s:%s:%s' % (job['backend'], job['variant'], job['runner'])
        out.count('interrupt:%s:%s:%s' % (job['backend'], job['variant'], job['runner']))
        out.count('interrupt-kind:' + job['kind'])
        if res.get('skipped_known_c17'):
            out.count('history-run-died-of-known-C17-thread-stream-race')
        for kind_, what in res['problems']:
            out.mismatches.append(dict(case=desc, impl=what, model='harness could not set up the case'))
        if 'v1' not in res:
            continue
        v1, v2 = res['v1'], res['v2']
        k = ids[job['target']]
        reached = [5, k] in v1['events']
        serial = job['runner'] in ('serial', 'timestamp')
        out.evaluations += 1
        if reached:
            out.nontrivial.add((job['backend'], job['variant'], job['runner'], job['kind'], tuple(v1['trace'])))
        # correspondence with Runner.v (serial runner only): the trace and exit code of the interrupted run, and -- through
        # Crash.db_ops on that trace -- the whole DB it leaves (every record, key by key)
        if serial:
            case, with_db = model_case(sc, job, res, desc, str(len(cases)))
            n_dbmodel += with_db
            cases.append(case)
            n_model += 1
        # oracle 1: the trace properties of C06_interrupt_flush
        if reached and serial:
            why = trace_oracle(v1['events'], k)
            if why:
                out.violations.append(dict(what='interrupted run (%s in %s, backend %s): %s' % (job['kind'], job['target'], job['backend'], why),
                                           shape=shape + ':trace', case=desc))
        # oracle 0: the run IS interrupted.  Once the interrupting action was started the exception must end the run: it escapes
        # DoitMain.run (child exit status 4), the interrupted task is neither reported successful nor saved, and (serial runner) no
        # action is started after it.  A swallowed interrupt is a violation whatever the DB says afterwards.
        raised = (job['target'], job['ai']) in [tuple(x) for x in v1['started']]
        mode = 'io capture=%s, verbosity=%s' % (capture_of(sc['tasks'][k]), sc['tasks'][k].get('verbosity'))
        if raised:
            why0 = []
            if res['rc1'] != 4:
                why0.append('the exception did not reach the caller of DoitMain.run (exit status %s%s)'
                            % (res['rc1'], '' if v1['escaped'] else ', nothing escaped'))
            if [6, k] in v1['events'] or [7, k] in v1['events']:
                why0.append('the interrupted task was %s' % ' and '.join(w for c, w in ((6, 'reported successful'), (7, 'saved as successful')) if [c, k] in v1['events']))
            after = [tuple(x) for x in v1['started']]
            after = after[after.index((job['target'], job['ai'])) + 1:]
            if serial and after:
                why0.append('the run went on: actions started after the interrupt: %s' % after)
            if why0:
                out.violations.append(dict(what='SWALLOWED INTERRUPT: %s raised inside action %d of %s (%s; %s backend, %s runner) did not end the run: %s'
                                                % ({'kbd': 'KeyboardInterrupt', 'sysexit': 'SystemExit'}[job['kind']], job['ai'], job['target'], mode,
                                                   job['backend'], job['runner'], '; '.join(why0)), shape=shape + ':swallowed', case=desc))
            elif not res['closed']:
                out.violations.append(dict(what='interrupt in %s: exit code %s, DB closed: %s (expected the interrupt to escape after close)'
                                                % (job['target'], res['rc1'], res['closed']), shape=shape + ':exit', case=desc))
        elif reached:
            out.mismatches.append(dict(case=desc, impl='task %s was executed but its action %d never started' % (job['target'], job['ai']),
                                       model='the interrupting action is reached'))
        # oracle 2: what the DB records
        if res['recorded'] != res['expected_recorded']:
            out.violations.append(dict(what='after the interrupted run the %s DB records %s, the successful+flushed tasks are %s'
                                            % (job['backend'], res['recorded'], res['expected_recorded']), shape=shape + ':db', case=desc))
        # oracle 2b: the record of every task, before vs after (the interrupted / not started ones: unchanged or absent);
        # what uptodate callables (`values`) and getargs consumers were shown in every run of the case
        seen_kinds = set()
        for ckind, what in res['complaints']:
            if ckind not in seen_kinds:
                seen_kinds.add(ckind)
                out.violations.append(dict(what='interrupt in %s action %d (%s backend, %s runner, %s): %s'
                                                % (job['target'], job['ai'], job['backend'], job['runner'], job['variant'], what),
                                           shape=shape + ':' + ckind, case=desc))
        if reached and job['target'] in res['rec0']:
            out.count('interrupted-task-had-record:values-%s' % ('nonempty' if res['rec0'][job['target']].get('_values_:') else 'empty'))
        if reached:
            out.count('interrupted-at-action:%d-of-%d' % (job['ai'], len(sc['tasks'][k]['actions'])))
            tt = sc['tasks'][k]
            out.count('interrupted-task-capture:%s:%s:%s%s' % (capture_of(tt), job['backend'], job['runner'], ':systematic' if job.get('fixed') else ''))
            out.count('interrupted-task-verbosity:%s' % tt.get('verbosity'))
            if any(a.get('cmd') for a in tt['actions'][:job['ai']]):
                out.count('interrupted-task-feature:cmd-action-before')
            feats = [f for f, on in (('values-uptodate', tt.get('revfile')), ('getargs-consumer', tt.get('getargs')),
                                     ('getargs-producer', any((x.get('getargs') or [None])[0] == tt['name'] for x in sc['tasks'])),
                                     ('returned-dict-before', any(a.get('ret') == 'dict' for a in tt['actions'][:job['ai']])),
                                     ('returned-str-before', any(a.get('ret') == 'str' for a in tt['actions'][:job['ai']]))) if on]
            for f in feats:
                out.count('interrupted-task-feature:' + f)
        if reached and job.get('revert') and job['target'] in res['expect_skip2']:
            out.count('next-run:interrupted-task-up-to-date-by-its-OLD-record (edit taken back)')
        if reached and job.get('revert') and not any(x.get('kind') == 'interrupt-values' for x in out.samples):
            out.samples.append(dict(kind='interrupt-values', backend=job['backend'], runner=job['runner'], interrupted=job['target'], action=job['ai'],
                                    history=job['history'], taken_back=job['revert'], record_before=res['rec0'].get(job['target']),
                                    record_after=res['rec1'].get(job['target']), next_run_expected_skipped=res['expect_skip2'],
                                    next_run_skipped=sorted(names[i] for i in ev_tasks(v2, 3)), next_run_getargs_received=v2['got']))
        for nm_, _ in v2['utdv']:
            out.count('next-run:uptodate-callable-read-values')
        for nm_, _ in v2['got']:
            out.count('next-run:getargs-consumer-executed')
        # oracle 3: the next run
        skipped2 = sorted(names[i] for i in ev_tasks(v2, 3))
        executed2 = sorted(names[i] for i in ev_tasks(v2, 5))
        if res['rc2'] != 0:
            out.violations.append(dict(what='run after the interrupted run exits %s: %s' % (res['rc2'], res['err2'][-200:]),
                                       shape=shape + ':next-rc', case=desc))
        elif skipped2 != res['expect_skip2']:
            lying = sorted(set(skipped2) - set(res['expect_skip2']))
            what = ('LYING DB: run after the interrupt skips %s which have no flushed successful execution with the present state' % lying) if lying else \
                   ('run after the interrupt forgot %s (executed although recorded successful and unchanged)' % sorted(set(res['expect_skip2']) - set(skipped2)))
            out.violations.append(dict(what=what, shape=shape + (':lying' if lying else ':forgot'), case=desc))
        if reached:
            succ1 = [names[i] for i in ev_tasks(v1, 6)]
            # every task reported successful before the interruption is skipped next time; the interrupted one runs
            # (a getargs consumer whose producer leaves no result -- its last action returns True -- is never up-to-date: doit's
            # implicit result_dep answers False without a recorded result; such a task is recorded but always executed)
            never = {t['name'] for t in sc['tasks'] if t.get('getargs')
                     and sc['tasks'][ids[t['getargs'][0]]]['actions'][-1].get('ret') not in ('dict', 'str')}
            again = [nm for nm in succ1 if nm in v2['sel'] and nm in executed2 and nm not in never]
            for nm in succ1:
                if nm in never:
                    out.count('successful-before-interrupt:never-up-to-date (getargs producer without result)')
            if not job.get('revert') and again:
                out.violations.append(dict(what='task reported successful before the interruption was executed again: %s' % again,
                                           shape=shape + ':forgot', case=desc))
            if not job.get('revert') and job['target'] in v2['sel'] and job['target'] not in executed2:
                out.violations.append(dict(what='LYING DB: the interrupted task %s was skipped by the next run' % job['target'],
                                           shape=shape + ':lying', case=desc))
        if len(out.samples) < 2 and reached and job['variant'] != 'fresh':
            out.samples.append(dict(kind='interrupt', backend=job['backend'], interrupted=job['target'], action=job['ai'], raised=job['kind'],
                                    trace=v1['trace'], recorded_after=res['recorded'], next_run_skipped=skipped2, next_run_executed=executed2))
    # the replay files are written for the first few distinct shapes: the record rule and the next run's decision first
    prio = {'record': 0, 'lying': 1, 'swallowed': 2, 'values': 3, 'getargs': 4, 'saved-values': 5}
    out.violations.sort(key=lambda v: prio.get(v['shape'].rsplit(':', 1)[-1], 9))
    out.extra['interrupt_runs'] = len(jobs)
    out.extra['interrupt_runs_compared_with_Runner_v'] = n_model
    out.extra['interrupt_runs_whose_DB_was_compared_with_Crash_v_db_ops'] = n_dbmodel


# ------------------------------------------------------------------ (1d) the other ways a run aborts
def fixed_abort_scenario():
    """the task set of the systematic (seed-independent) block of (1d).  Executed in the order t1, t2, t0, t5, t4, t3 by the serial
    runner: t0 has the task_dep t1 and the setup-task t2 (created only after t0 was found out of date, i.e. after t1 was
    reported successful -- with every runner); t3 depends on t4 and t5 (t4 on t5) and, through its file_dep out0, on t0"""
    ok = lambda **kw: dict(kind='ok', **kw)
    tasks = [
        dict(name='t0', file_dep=['src0'], targets=['out0'], task_dep=['t1'], setup=['t2'], actions=[ok()], teardown=False, pad=0),
        dict(name='t1', file_dep=['src1'], targets=['out1'], task_dep=[], actions=[ok(), ok()], teardown=True, pad=7),
        dict(name='t2', file_dep=['src2'], targets=['out2'], task_dep=[], actions=[ok()], teardown=False, pad=0, io={'capture': False}),
        dict(name='t3', file_dep=['src3', 'out0'], targets=['out3'], task_dep=['t4', 't5'], actions=[ok()], teardown=True, pad=0),
        dict(name='t4', file_dep=['src4'], targets=['out4'], task_dep=['t5'], actions=[ok(cmd=True), ok()], teardown=False, pad=300),
        dict(name='t5', file_dep=['src5'], targets=['out5'], task_dep=[], actions=[ok()], teardown=False, pad=0),
    ]
    return dict(tasks=tasks, selected=['t0', 't3'])


# the abort points of the systematic block: (kind, task, action index, edges, label)
FIXED_ABORT_POINTS = [
    # (a) BaseException subclasses other than KeyboardInterrupt / SystemExit raised by an action
    ('custombase', 't1', 0, None, 'a'), ('genexit', 't1', 1, None, 'a'), ('cancelled', 't2', 0, None, 'a'),
    ('custombase', 't0', 0, None, 'a'), ('cancelled', 't5', 0, None, 'a'), ('genexit', 't3', 0, None, 'a'),
    # (b) the uptodate callable of a later task raises at check time
    ('utd', 't0', 0, None, 'b'), ('utd', 't2', 0, None, 'b'), ('utd', 't5', 0, None, 'b'), ('utd', 't3', 0, None, 'b'),
    # (c) a value-saver raises after the task's actions ran
    ('saver', 't1', 0, None, 'c'), ('stamp', 't0', 0, None, 'c'), ('saver', 't4', 0, None, 'c'), ('stamp', 't3', 0, None, 'c'),
    # (d) a dependency cycle that the dispatcher finds at run time, after tasks completed: through the setup-task of t0 (found when t0 was
    # selected, after t1 succeeded), through a task_dep of t3 (ancestors), and two tasks created by the same parent waiting for each other
    # ("hold on": no diagnostic before every other task is done)
    ('cycle', None, 0, [['t2', 't0', 'task_dep']], 'd-setup-cycle'), ('cycle', None, 0, [['t5', 't3', 'task_dep']], 'd-dep-cycle'),
    ('cycle', None, 0, [['t5', 't4', 'task_dep']], 'd-hold'),
]
FIXED_ABORT_QUICK_PARALLEL = {('genexit', 't1'), ('custombase', 't0'), ('utd', 't0'), ('utd', 't3'), ('saver', 't4'), ('stamp', 't0'),
                              ('cycle', 'd-setup-cycle'), ('cycle', 'd-hold')}


def depends_on(sc):
    """{task: set of the tasks it (transitively) waits for}: task_dep, setup, getargs producers and file_deps on other tasks' targets"""
    owner = {tg: t['name'] for t in sc['tasks'] for tg in t['targets']}
    direct = {t['name']: set(t['task_dep']) | set(t.get('setup') or []) | ({t['getargs'][0]} if t.get('getargs') else set())
              | {owner[f] for f in t['file_dep'] if f in owner} for t in sc['tasks']}
    reach = {nm: set(ds) for nm, ds in direct.items()}
    changed = True
    while changed:
        changed = False
        for nm in reach:
            more = set().union(*[reach[x] for x in reach[nm]]) - reach[nm] if reach[nm] else set()
            if more:
                reach[nm] |= more
                changed = True
    return reach


def abort_reached(job, v1, ids):
    """did the aborting run get to the abort point"""
    kind, target = job['kind'], job['target']
    if kind in ABORT_ACTION_KINDS:
        return (target, job['ai']) in [tuple(x) for x in v1['started']]
    if kind in ('utd', 'saver'):
        return (kind, target) in [tuple(x) for x in v1['raised']]
    if kind == 'stamp':
        return [5, ids[target]] in v1['events'] and target in v1['done']
    return [11] in v1['events'] or [12] in v1['events']


ABORT_WHAT = {'custombase': 'a BaseException subclass of the user raised inside action %(ai)d of %(target)s',
              'genexit': 'GeneratorExit raised inside action %(ai)d of %(target)s',
              'cancelled': 'asyncio.CancelledError raised inside action %(ai)d of %(target)s',
              'utd': 'an exception raised by the uptodate callable of %(target)s at check time',
              'saver': 'an exception raised by a value-saver of %(target)s after its actions ran',
              'stamp': 'the OSError of check_timestamp_unchanged(<missing file>) raised when the values of %(target)s were saved after its actions ran',
              'cycle': 'a cyclic dependency (%(edges)s added) found by the dispatcher at run time'}


def judge_abort(job, res):
    """the oracles of (1d) on one case.  Returns (violations [(shape suffix, sentence)], reached)"""
    sc = job['sc']
    names = [t['name'] for t in sc['tasks']]
    ids = {nm: i for i, nm in enumerate(names)}
    v1, v2 = res['v1'], res['v2']
    ev = v1['events']
    kind, target = job['kind'], job['target']
    k = ids.get(target)
    serial = job['runner'] in ('serial', 'timestamp')
    reached = abort_reached(job, v1, ids)
    how = ABORT_WHAT[kind] % dict(ai=job['ai'], target=target, edges=job.get('edges'))
    where = 'run aborted by %s (%s backend, %s runner, %s)' % (how, job['backend'], job['runner'], job['variant'])
    viol = []
    succ1 = [names[i] for i in ev_tasks(v1, 6)]
    # oracle 0: the abort ends the run, and is seen by the caller: the BaseException escapes DoitMain.run as the class that was raised,
    # an Exception / a cyclic dependency gives the error exit 3; the aborting task is neither reported successful nor saved; serial
    # runner: nothing is selected, executed, reported or saved after the abort point
    if reached:
        why0 = []
        if kind in ABORT_ACTION_KINDS:
            if res['rc1'] != 97 or v1['escaped'] != ABORT_ACTION_KINDS[kind]:
                why0.append('the exception did not reach the caller of DoitMain.run as %s (exit status %s, escaped: %s)'
                            % (ABORT_ACTION_KINDS[kind], res['rc1'], v1['escaped']))
        elif res['rc1'] != 3:
            why0.append('exit status %s (escaped: %s), expected the error exit 3' % (res['rc1'], v1['escaped']))
        if k is not None and ([6, k] in ev or [7, k] in ev):
            why0.append('the aborting task was %s' % ' and '.join(w for c, w in ((6, 'reported successful'), (7, 'saved as successful')) if [c, k] in ev))
        if kind == 'utd' and [5, k] in ev:
            why0.append('the task whose check raised was executed')
        if serial and k is not None:
            at = ev.index([1, k] if kind == 'utd' else [5, k])
            later = [e for e in ev[at + 1:] if e[0] in (1, 2, 3, 4, 5, 6, 7, 8)]
            if later:
                why0.append('the run went on after the abort point: %s' % later)
        if why0:
            viol.append(('swallowed', 'SWALLOWED ABORT: %s: %s' % (where, '; '.join(why0))))
    # oracle 1: the DB was closed (flushed) exactly once, and nothing is saved / removed / reported afterwards
    ncl = ev.count([10])
    if ncl != 1:
        viol.append(('not-flushed' if ncl == 0 else 'closed-twice',
                     '%s: Dependency.close ran %d times: the DB was %s; tasks reported successful before the abort: %s'
                     % (where, ncl, 'never flushed' if ncl == 0 else 'closed more than once', succ1)))
    else:
        post = ev[ev.index([10]) + 1:]
        bad = [e for e in post if e[0] in (6, 7, 8) or (serial and e[0] not in (9, 11, 12, 13))]
        if bad:
            viol.append(('after-close', '%s: events after Dependency.close: %s' % (where, bad)))
    # oracle 2: what the DB records afterwards (the real backend class reads it): exactly the tasks saved and flushed
    if res['recorded'] != res['expected_recorded']:
        viol.append(('db', '%s: afterwards the DB records %s, the successful+flushed tasks are %s'
                     % (where, res['recorded'], res['expected_recorded'])))
    seen = set()
    for ckind, what in res['complaints']:
        if ckind not in seen:
            seen.add(ckind)
            viol.append((ckind, '%s: %s' % (where, what)))
    # oracle 3: the next run (without the defect that aborted this one)
    skipped2 = sorted(names[i] for i in ev_tasks(v2, 3))
    executed2 = sorted(names[i] for i in ev_tasks(v2, 5))
    if res['rc2'] != 0:
        viol.append(('next-rc', '%s: the next run exits %s: %s' % (where, res['rc2'], res['err2'][-200:])))
    elif skipped2 != res['expect_skip2']:
        lying = sorted(set(skipped2) - set(res['expect_skip2']))
        viol.append(('lying', '%s: LYING DB: the next run skips %s which have no flushed successful execution with the present state' % (where, lying))
                    if lying else
                    ('forgot', '%s: the next run forgot %s (executed although recorded successful and unchanged)'
                     % (where, sorted(set(res['expect_skip2']) - set(skipped2)))))
    never = {t['name'] for t in sc['tasks'] if t.get('getargs')
             and sc['tasks'][ids[t['getargs'][0]]]['actions'][-1].get('ret') not in ('dict', 'str')}
    again = [nm for nm in succ1 if nm in v2['sel'] and nm in executed2 and nm not in never]
    if again and not any(s == 'forgot' for s, _ in viol):
        viol.append(('forgot', '%s: reported successful before the abort, executed again by the next run although nothing changed: %s' % (where, again)))
    if reached and k is not None and target in v2['sel'] and target not in executed2:
        viol.append(('lying', '%s: LYING DB: the aborting task %s was skipped by the next run' % (where, target)))
    return viol, reached


def abort_jobs(ctx, base):
    """the cases of (1d): the systematic block (no PRNG draw) + random abort points in generated task sets"""
    rng = ctx.rng
    jobs = []
    fsc = fixed_abort_scenario()

    def add(sc, backend, runner, variant, kind, target, ai, edges, label, modify, **kw):
        jobs.append(dict(dir=os.path.join(base, 'a%d' % len(jobs)), sc=sc, backend=backend, variant=variant, target=target, ai=ai, kind=kind,
                         edges=edges, label=label, modify=modify, failing=None, runner=runner, args=list(RUNNER_ARGS[runner]), replay='abort', **kw))
    for bi, backend in enumerate(BACKENDS):
        for ri, runner in enumerate(('serial', 'thread', 'process')):
            pts = FIXED_ABORT_POINTS
            if ctx.quick and runner != 'serial':
                # quick tier, parallel runners: two points of each of (a)-(d) on every backend, the other points on one backend each (rotating)
                pts = [p for pi, p in enumerate(FIXED_ABORT_POINTS)
                       if (p[0], p[1] or p[4]) in FIXED_ABORT_QUICK_PARALLEL or (pi + ri) % 3 == bi]
            for kind, target, ai, edges, label in pts:
                for variant in (('prior',) if ctx.quick else ('prior', 'fresh')):
                    add(fsc, backend, runner, variant, kind, target, ai, edges, label, sources_of(fsc) if variant == 'prior' else [], fixed=True)
    n_fixed = len(jobs)
    # from the PRNG: generated task sets (the plain ones of (1) and the value ones of (1b)), any task / action, any of the abort kinds
    scs = [gen_scenario(rng, n) for n in ([3, 4] if ctx.quick else [2, 3, 3, 4, 4, 4])] + [gen_value_scenario(rng, n) for n in ([3] if ctx.quick else [3, 4, 2])]
    for sc in scs:
        reach = depends_on(sc)
        srcs = sources_of(sc)
        back = [(a, b) for a in reach for b in reach[a]]        # a waits for b: the added edge b -> a closes a cycle
        for _ in range(ctx.n(10, 24)):
            kind = rng.choice(list(ABORT_ACTION_KINDS) + list(ABORT_TASK_KINDS) + ['cycle', 'cycle'])
            if kind == 'cycle' and not back:
                kind = 'utd'
            t = rng.choice(sc['tasks'])
            backend = rng.choice(BACKENDS)
            runner = rng.choice(['serial', 'serial', 'thread', 'process'])
            variant = rng.choice(['fresh', 'prior', 'prior'])
            own = ['src' + t['name'][1:]] + ([t['revfile']] if t.get('revfile') else [])
            modify = sorted(set(rng.sample(srcs, rng.randrange(0, len(srcs) + 1)) + own)) if variant == 'prior' else []
            if kind == 'cycle':
                a, b = rng.choice(back)
                add(sc, backend, runner, variant, kind, None, 0, [[b, a, rng.choice(['task_dep', 'task_dep', 'setup'])]], 'd-random', modify)
            else:
                add(sc, backend, runner, variant, kind, t['name'], rng.randrange(len(t['actions'])) if kind in ABORT_ACTION_KINDS else 0,
                    None, {'utd': 'b', 'saver': 'c', 'stamp': 'c'}.get(kind, 'a'), modify)
    return jobs, n_fixed


def part_abort(ctx, out, cases):
    base = ctx.subdir('abort')
    jobs, n_fixed = abort_jobs(ctx, base)
    with concurrent.futures.ThreadPoolExecutor(max_workers=common.NCPU) as ex:
        results = list(ex.map(interrupt_case, jobs))
    n_model = 0
    for job, res in zip(jobs, results):
        sc = job['sc']
        desc = dict(res['job'])
        shape = 'abort:%s:%s:%s:%s' % (job['kind'], job['backend'], job['variant'], job['runner'])
        if res.get('skipped_known_c17'):
            out.count('history-run-died-of-known-C17-thread-stream-race')
        for kind_, what in res['problems']:
            out.mismatches.append(dict(case=desc, impl=what, model='harness could not set up the case'))
        if 'v1' not in res:
            continue
        out.evaluations += 1
        viol, reached = judge_abort(job, res)
        v1 = res['v1']
        names = [t['name'] for t in sc['tasks']]
        n_succ = len(ev_tasks(v1, 6))
        out.count('abort:%s:%s:%s%s' % (job['label'], job['kind'], job['runner'], ':systematic' if job.get('fixed') else ''))
        out.count('abort-backend:%s' % job['backend'])
        if reached:
            out.nontrivial.add(('abort', job['backend'], job['variant'], job['runner'], job['kind'], tuple(v1['trace'])))
            out.count('abort-reached:tasks-reported-successful-before:%s' % ('0' if n_succ == 0 else ('1' if n_succ == 1 else '2+')))
            if job['kind'] == 'cycle':
                out.count('abort-cycle-diagnostic:%s:%s' % ('hold-on' if [12] in v1['events'] else 'ancestors', job['runner']))
        elif job.get('fixed'):
            out.mismatches.append(dict(case=desc, impl='the abort point was not reached: trace %s rc %s %s' % (v1['trace'], res['rc1'], res.get('err1', '')[-300:]),
                                       model='systematic block of (1d): every abort point is reached'))
        else:
            out.count('abort-point-not-reached (task not selected / up-to-date / the added edge closes no cycle on a selected path)')
        # correspondence with Model/Runner.v: only the ends the model has -- (d) is StopCycle / StopHold (finish, then InvalidDodoFile ->
        # exit 3); a run whose abort point was not reached ended normally (StopNormal).  (a)-(c) have no end in the model: oracles only
        if job['runner'] == 'serial' and (job['kind'] == 'cycle' or not reached):
            case, _ = model_case(sc, job, res, desc, str(len(cases)))
            case['desc'] = ('abort-trace+db', desc)
            cases.append(case)
            n_model += 1
        for sfx, what in viol:
            out.violations.append(dict(what=what, shape=shape + ':' + sfx, case=desc))
        if reached and n_succ and not any(x.get('kind') == 'abort:' + job['label'] for x in out.samples) and len(out.samples) < 6:
            out.samples.append(dict(kind='abort:' + job['label'], how=ABORT_WHAT[job['kind']] % dict(ai=job['ai'], target=job['target'], edges=job.get('edges')),
                                    backend=job['backend'], runner=job['runner'], trace=v1['trace'], exit=res['rc1'], escaped=v1['escaped'],
                                    recorded_after=res['recorded'], next_run_skipped=sorted(names[i] for i in ev_tasks(res['v2'], 3)),
                                    next_run_executed=sorted(names[i] for i in ev_tasks(res['v2'], 5))))
    prio = {'forgot': 0, 'lying': 1, 'not-flushed': 2, 'record': 3, 'swallowed': 4}     # the replay files: the visible consequence first
    out.violations.sort(key=lambda v: (1, prio.get(v['shape'].rsplit(':', 1)[-1], 9)) if v['shape'].startswith('abort:') else (0, 0))
    out.extra['abort_runs'] = len(jobs)
    out.extra['abort_runs_systematic'] = n_fixed
    out.extra['abort_runs_compared_with_Runner_v (cycle / hold-on ends)'] = n_model


# ------------------------------------------------------------------ (2) kill sweep
LINE = re.compile(r'^(\d+)\s+(\w+)\((.*)\)\s+=\s+(\S+)')


def parse_strace(path):
    calls = []
    if not os.path.exists(path):
        return calls
    for line in open(path, errors='replace'):
        m = LINE.match(line)
        if m and m.group(2) in SYSCALLS:
            calls.append((int(m.group(1)), m.group(2), m.group(3), m.group(4)))
    return calls


def hexarg(s):
    """first "\\x..\\x.." string literal of a strace argument list -> bytes"""
    m = re.search(r'"((?:\\x[0-9a-f]{2})*)"', s)
    return bytes.fromhex(m.group(1).replace('\\x', '')) if m else b''


def snapshot(d, backend):
    snap = {}
    for p in db_files(d, backend):
        if os.path.exists(p):
            snap[os.path.basename(p)] = open(p, 'rb').read()
    return snap


def dumb_view(snap):
    """read a dbm.dumb file triple the way dbm.dumb does: {key: raw bytes} or the name of the exception of open()"""
    import ast
    dirb = snap.get(DBNAME + '.dir')
    dat = snap.get(DBNAME + '.dat', b'')
    idx = {}
    if dirb is not None:
        try:
            for line in dirb.decode('latin-1').splitlines():
                line = line.rstrip()
                key, pair = ast.literal_eval(line)
                idx[key] = pair
        except Exception as e:   # noqa
            return '<%s>' % type(e).__name__
    view = {}
    for key, pair in idx.items():
        try:
            pos, siz = pair
            view[key] = dat[pos:pos + siz]
        except Exception as e:   # noqa
            view[key] = '<%s>' % type(e).__name__
    return view


def sqlite_view(snap, tmp):
    import sqlite3
    os.makedirs(tmp, exist_ok=True)
    for nm, b in snap.items():
        with open(os.path.join(tmp, nm), 'wb') as f:
            f.write(b)
    try:
        conn = sqlite3.connect(os.path.join(tmp, DBNAME))
        try:
            rows = conn.execute('select task_id, task_data from doit').fetchall()
        except sqlite3.OperationalError as e:
            if 'no such table' in str(e):
                return {}
            return '<%s>' % type(e).__name__
        finally:
            conn.close()
        return {k: (v.encode() if isinstance(v, str) else v) for k, v in rows}
    except Exception as e:   # noqa
        return '<%s>' % type(e).__name__
    finally:
        shutil.rmtree(tmp, ignore_errors=True)


def classify_disk(backend, old, new, got, tmp):
    """compare the disk after a kill with the conclusions of the Crash.v theorems.  Returns (labels, problem|None)"""
    if backend == 'json':
        o, n, g = old.get(DBNAME), new.get(DBNAME), got.get(DBNAME)
        if g == o:
            return ['old'], None
        if g == n:
            return ['new'], None
        if g is not None and n is not None and len(g) < len(n) and n.startswith(g):
            return ['proper-prefix' if g else 'empty-file'], None
        return ['other'], 'json file after the kill is neither the old file, the new file nor a proper prefix of the new document'
    if backend == 'sqlite3':
        o, n, g = sqlite_view(old, tmp + 'o'), sqlite_view(new, tmp + 'n'), sqlite_view(got, tmp + 'g')
        if g == o:
            return ['old'], None
        if g == n:
            return ['new'], None
        return ['other'], 'sqlite table after the kill (%s) is neither the old nor the new table' % (g if isinstance(g, str) else sorted(g))
    o, n, g = dumb_view(old), dumb_view(new), dumb_view(got)
    if isinstance(g, str):
        return ['index-unreadable'], None
    labels, problem = [], None
    keys = set(g) | (set(o) if isinstance(o, dict) else set()) | (set(n) if isinstance(n, dict) else set())
    for key in sorted(keys):
        ov = o.get(key) if isinstance(o, dict) else None
        nv = n.get(key) if isinstance(n, dict) else None
        gv = g.get(key)
        if gv is None:
            labels.append('absent')
        elif gv == ov:
            labels.append('old')
        elif gv == nv:
            labels.append('new')
        elif nv is not None and isinstance(gv, bytes) and len(gv) < len(nv) and nv.startswith(gv):
            labels.append('prefix-of-new')
        elif nv is not None and ov is not None and isinstance(gv, bytes) and gv == (nv + ov[len(nv):])[:len(ov)]:
            labels.append('new+tail-of-old')
        else:
            labels.append('other')
            problem = 'dbm.dumb key %r after the kill reads %r: not old, new, absent, prefix of new, or new+tail of old' % (key, gv[:60] if isinstance(gv, bytes) else gv)
    return labels, problem


def kill_setup(d, sc, backend, variant):
    """base state of a kill scenario in directory d; returns (run id of the run to be killed, kinds, args, modify)"""
    os.makedirs(d, exist_ok=True)
    for s in sources_of(sc):
        write_source(d, s, 0)
    if variant == 'fresh':
        return 0
    rc, err = run_child(d, sc, backend, 0)
    if rc != 0:
        raise RuntimeError('prior run failed: %s' % err[-300:])
    return 1


def after_crash(d, sc, backend, rid, args, kinds, res):
    """the run after a kill (or a simulated torn write) and the soundness oracle; fills res"""
    # the run after the kill
    rc2, err2 = run_child(d, sc, backend, rid + 1, args=args)
    recs = read_log(d)
    v2 = run_view(recs, rid + 1)
    res['rc2'], res['err2'] = rc2, err2[-600:]
    names = [t['name'] for t in sc['tasks']]
    lies = []
    for i in ev_tasks(v2, 3):
        nm = names[i]
        state, targets_ok = v2['sel'].get(nm, (None, False))
        witnesses = [r for r in range(0, rid + 1) if run_view(recs, r)['done'].get(nm) == state]
        if not targets_ok or not witnesses:
            lies.append(nm)
    res['lies'] = lies
    res['skipped2'] = sorted(names[i] for i in ev_tasks(v2, 3))
    res['executed2'] = sorted(names[i] for i in ev_tasks(v2, 5))
    # forgotten: completed and saved in an earlier COMPLETE run with the present state, but executed again
    res['forgot'] = []
    for i in ev_tasks(v2, 5):
        nm = names[i]
        state, targets_ok = v2['sel'].get(nm, (None, False))
        if targets_ok and rid > 0 and run_view(recs, 0)['done'].get(nm) == state and nm not in kinds:
            res['forgot'].append(nm)
    res['rc3'] = None
    if rc2 == 0:
        rc3, err3 = run_child(d, sc, backend, rid + 2, args=args)
        v3 = run_view(read_log(d), rid + 2)
        res['retried3'] = None
        if rc3 != 0 and not v3['ended']:
            # the interpreter itself died before doit finished (seen once under heavy load): try again, keep the evidence
            res['retried3'] = 'rc=%s stderr=%s' % (rc3, err3[-300:])
            rc3, err3 = run_child(d, sc, backend, rid + 3, args=args)
            v3 = run_view(read_log(d), rid + 3)
        res['rc3'] = rc3
        res['err3'] = err3[-500:]
        res['executed3'] = sorted(names[i] for i in ev_tasks(v3, 5))


def torn_case(job):
    """a complete run, then the DB file is replaced by a torn version of itself (a state no SIGKILL produces: a write
    that reached the disk only in part), then the next run, judged by the same oracle"""
    d, base, sc, backend = job['dir'], job['base'], job['sc'], job['backend']
    shutil.copytree(base, d)
    rid = job['rid']
    rc, err = run_child(d, sc, backend, rid, kinds=job['kinds'], args=job['args'])
    res = dict(rc=rc, ok=rc in (0, 1, 2))
    for nm, content in job['files'].items():
        with open(os.path.join(d, nm), 'wb') as f:
            f.write(content)
    after_crash(d, sc, backend, rid, job['args'], job['kinds'], res)
    shutil.rmtree(d, ignore_errors=True)
    return res


def torn_versions(backend, new, rng, limit):
    """(label, {file: bytes}) torn versions of the DB a complete run left"""
    out = []
    if backend == 'json' and new.get(DBNAME):
        doc = new[DBNAME]
        cuts = sorted(set([1, 2, len(doc) // 3, len(doc) // 2, len(doc) - 2, len(doc) - 1] + [rng.randrange(1, len(doc)) for _ in range(limit)]))
        for c in cuts[:limit + 6]:
            if 0 < c < len(doc):
                out.append(('json-prefix:%d/%d' % (c, len(doc)), {DBNAME: doc[:c]}))
    if backend == 'dbm' and new.get(DBNAME + '.dir'):
        dirb = new[DBNAME + '.dir']
        start = dirb.rfind(b'\n', 0, len(dirb) - 1) + 1
        cuts = list(range(start + 1, len(dirb) - 1))
        if len(cuts) > limit:
            cuts = sorted(rng.sample(cuts, limit))
        for c in cuts:
            out.append(('dir-torn-line:%r' % dirb[start:c].decode('latin-1'), {DBNAME + '.dir': dirb[:c]}))
    return out


def kill_point(job):
    d, base, sc, backend = job['dir'], job['base'], job['sc'], job['backend']
    shutil.copytree(base, d)
    rid = job['rid']
    st = os.path.join(d, 'strace.out')
    t0 = time.time()
    rc, err = run_child(d, sc, backend, rid, kinds=job['kinds'], args=job['args'], strace=dict(out=st, inject=job['inject']))
    calls = parse_strace(st)
    recs = read_log(d)
    v1 = run_view(recs, rid)
    got = snapshot(d, backend)
    killed = (rc == 137 or rc == -9) and not v1['ended']
    res = dict(killed=killed, rc=rc, n_calls=len(calls), got=got, last_call=calls[-1][1:3] if calls else None)
    # intended json document: payloads of the write calls on the DB file, the interrupted one included
    if backend == 'json':
        res['writes'] = [hexarg(c[2]) for c in calls if c[1] == 'write']
        res['writes_done'] = [hexarg(c[2]) for c in calls if c[1] == 'write' and c[3] != '?']
        res['truncated'] = any(c[1] == 'openat' and 'O_TRUNC' in c[2] and c[3] != '?' for c in calls)
    after_crash(d, sc, backend, rid, job['args'], job['kinds'], res)
    res['secs'] = time.time() - t0
    shutil.rmtree(d, ignore_errors=True)
    return res


def judge_after(out, res, shape, desc, where, how, backend, refused, surprising):
    """the soundness oracle on the run(s) after a crash"""
    if res['rc2'] == 3:
        last = [l for l in res['err2'].strip().splitlines() if l.strip()][-1:] or ['']
        exc = last[0].split(':')[0].strip()[:60]
        refused.setdefault(backend, {})
        refused[backend][exc] = refused[backend].get(exc, 0) + 1
    elif res['rc2'] != 0:
        out.violations.append(dict(what='run after the %s exits %s (neither refused=3 nor 0): %s' % (where, res['rc2'], res['err2'][-300:]),
                                   shape=shape + ':next-rc', case=desc))
    if res['lies']:
        out.violations.append(dict(what='LYING DB after %s (backend %s): the next run skipped %s as up-to-date but no completed '
                                        'execution has the present dependency state; reproduce with: %s'
                                        % (where, backend, res['lies'], how), shape=shape + ':lying', case=desc))
    if res['rc2'] == 0 and res['rc3'] is not None and (res['rc3'] != 0 or res['executed3']):
        out.violations.append(dict(what='after a %s and one accepted run the DB is still not consistent: third run rc=%s executed %s stderr: %s'
                                        % (where, res['rc3'], res.get('executed3'), res.get('err3')), shape=shape + ':third-run', case=desc))
    if res.get('retried3'):
        out.extra.setdefault('third_run_retried', []).append(res['retried3'])
    if res['forgot']:
        surprising.setdefault(backend, {})
        key = 'forgot tasks recorded by an earlier complete run'
        surprising[backend][key] = surprising[backend].get(key, 0) + 1


def part_kill(ctx, out, cases):
    rng = ctx.rng
    root = ctx.subdir('kill')
    plans = []
    if ctx.quick:
        sc_list = [(gen_scenario(rng, 2, select_all=True), ['fresh', 'prior', 'prior-fail']),
                   (gen_scenario(rng, 3, select_all=True), ['prior', 'prior-fail'])]
    else:
        sc_list = [(gen_scenario(rng, 2, select_all=True), ['fresh', 'prior', 'prior-fail']), (gen_scenario(rng, 3, select_all=True), ['fresh', 'prior', 'prior-fail']),
                   (gen_scenario(rng, 4, select_all=True), ['prior', 'prior-fail']), (gen_scenario(rng, 2, big=120, select_all=True), ['fresh', 'prior'])]
    for si, (sc, variants) in enumerate(sc_list):
        names = [t['name'] for t in sc['tasks']]
        for backend in BACKENDS:
            for variant in variants:
                checkers = [[]] if (ctx.quick or variant == 'fresh' or si > 0) else [[], ['--check_file_uptodate', 'timestamp']]
                for chk in checkers:
                    plans.append(dict(si=si, sc=sc, backend=backend, variant=variant, args=list(chk)))
    jobs, plan_info = [], []
    for pi, pl in enumerate(plans):
        sc, backend, variant = pl['sc'], pl['backend'], pl['variant']
        names = [t['name'] for t in sc['tasks']]
        base = os.path.join(root, 'base%d' % pi)
        try:
            os.makedirs(base)
            for s in sources_of(sc):
                write_source(base, s, 0)
            rid, kinds, args, mod = 0, {}, list(pl['args']), []
            if variant != 'fresh':
                rc, err = run_child(base, sc, backend, 0, args=args)
                if rc != 0:
                    raise RuntimeError('prior run failed rc=%s: %s' % (rc, err[-300:]))
                srcs = sources_of(sc)
                mod = rng.sample(srcs, rng.randrange(1, len(srcs) + 1))
                if variant == 'prior-fail':
                    failing = rng.choice(names)
                    kinds = {failing: (0, 'fail')}
                    args = args + ['--continue']
                    mod = sorted(set(mod + [s for s in srcs if s.startswith('src' + failing[1:])][:1]))
                for s in mod:
                    write_source(base, s, 1)
                rid = 1
            old = snapshot(base, backend)
            # counting run (un-injected) on a copy: which calls, and the final state
            cd = os.path.join(root, 'count%d' % pi)
            shutil.copytree(base, cd)
            st = os.path.join(cd, 'strace.out')
            rc, err = run_child(cd, sc, backend, rid, kinds=kinds, args=args, strace=dict(out=st, inject=None))
            calls = parse_strace(st)
            new = snapshot(cd, backend)
            pids = {c[0] for c in calls}
            vc = run_view(read_log(cd), rid)
            shutil.rmtree(cd, ignore_errors=True)
            if not vc['ended'] or vc['rc'] not in (0, 1, 2):
                raise RuntimeError('counting run ended=%s rc=%s: %s' % (vc['ended'], vc['rc'], err[-400:]))
            if len(pids) != 1:
                raise RuntimeError('DB files touched by %d processes' % len(pids))
            counts = {}
            for c in calls:
                counts[c[1]] = counts.get(c[1], 0) + 1
            plan_info.append(dict(pi=pi, plan=pl, base=base, old=old, new=new, counts=counts, rid=rid, kinds=kinds, args=args, n_calls=len(calls), mod=list(mod)))
            for s, c in sorted(counts.items()):
                for k in range(1, c + 1):
                    jobs.append(dict(pi=pi, dir=os.path.join(root, 'k%d_%s_%d' % (pi, s, k)), base=base, sc=sc, backend=backend,
                                     rid=rid, kinds=kinds, args=args, inject=(s, k)))
        except Exception as e:   # noqa
            out.mismatches.append(dict(case=dict(backend=backend, variant=variant), impl='kill scenario could not be set up: %r' % e, model=''))
    by_pi = {inf['pi']: inf for inf in plan_info}
    with concurrent.futures.ThreadPoolExecutor(max_workers=common.NCPU) as ex:
        results = list(ex.map(kill_point, jobs))
    per_backend, labels_seen, refused, surprising = {}, {}, {}, {}
    n_json_cases = 0
    for job, res in zip(jobs, results):
        inf = by_pi[job['pi']]
        pl = inf['plan']
        backend, variant = pl['backend'], pl['variant']
        s, k = job['inject']
        cmdline = ('strace -f -P <%s> -e trace=%s -e inject=%s:signal=SIGKILL:when=%d  [backend %s, %s, args %s]'
                   % (','.join(os.path.basename(p) for p in db_files('.', backend)), ','.join(SYSCALLS), s, k, backend, variant, job['args']))
        desc = dict(replay='kill', backend=backend, variant=variant, inject='%s:%d' % (s, k), args=job['args'], kinds=job['kinds'],
                    modified=inf['mod'], base_args=pl['args'], tasks=pl['sc']['tasks'], selected=pl['sc']['selected'], strace=cmdline)
        shape = 'kill:%s:%s' % (backend, variant)
        out.evaluations += 1
        out.count('kill:%s:%s' % (backend, variant))
        out.count('kill-syscall:%s:%s' % (backend, s))
        if not res['killed']:
            out.mismatches.append(dict(case=desc, impl='process was not killed at this point (rc %s, %d calls seen, %d expected)'
                                                      % (res['rc'], res['n_calls'], inf['n_calls']), model='kill expected at every counted call'))
            continue
        per_backend[backend] = per_backend.get(backend, 0) + 1
        out.nontrivial.add((backend, variant, tuple(job['args']), s, k, pl['si']))
        judge_after(out, res, shape, desc, 'kill at %s #%d' % (s, k), cmdline, backend, refused, surprising)
        # --- classification against the Crash.v conclusions
        labels, problem = classify_disk(backend, inf['old'], inf['new'], res['got'], job['dir'] + '-sq')
        for l in set(labels):
            labels_seen.setdefault(backend, {})
            labels_seen[backend][l] = labels_seen[backend].get(l, 0) + 1
        if problem:
            out.mismatches.append(dict(case=desc, impl=problem, model='Crash.v: ' + {'json': 'C06_json_crash', 'sqlite3': 'C06_sqlite_crash', 'dbm': 'C06_dumb_crash_partial'}[backend]))
        if backend == 'json' and res.get('writes') is not None and n_json_cases < ctx.n(12, 60):
            # Crash.json_crash old chunks k  vs the file found on disk
            chunks = res['writes'] if res['writes'] else [inf['new'].get(DBNAME, b'')]
            kk = (1 if res['truncated'] else 0) + len(res['writes_done'])
            oldb = inf['old'].get(DBNAME)
            gotb = res['got'].get(DBNAME)
            enc = lambda b: [-1] if b is None else [len(b)] + list(b)
            model = 'enc_file (json_crash %s %s %d)' % (
                'None' if oldb is None else '(Some %s)' % nlist(oldb), '[' + '; '.join(nlist(c) for c in chunks) + ']', kk)
            cases.append(dict(model=model, expected=enc(gotb), desc=('json-crash', dict(inject='%s:%d' % (s, k), variant=variant))))
            n_json_cases += 1
        if len(out.samples) < 6 and any(l not in ('old', 'new', 'absent') for l in labels) and not any(
                x.get('kind') == 'kill' and x['backend'] == backend and x['disk'] == labels for x in out.samples):
            out.samples.append(dict(kind='kill', backend=backend, variant=variant, inject='%s:%d' % (s, k), disk=labels,
                                    next_run_rc=res['rc2'], next_run_skipped=res['skipped2'], next_run_executed=res['executed2']))
    # --- simulated torn writes (beyond what a SIGKILL can produce): J-prefix through the real JsonDB._load, and the
    # assumption that a torn last line of .dir is never read as a valid entry
    tjobs = []
    for inf in plan_info:
        pl = inf['plan']
        if pl['backend'] not in ('json', 'dbm') or pl['si'] > 1:
            continue
        for label, files in torn_versions(pl['backend'], inf['new'], rng, ctx.n(4, 14)):
            tjobs.append(dict(pi=inf['pi'], dir=os.path.join(root, 't%d_%d' % (inf['pi'], len(tjobs))), base=inf['base'], sc=pl['sc'],
                              backend=pl['backend'], rid=inf['rid'], kinds=inf['kinds'], args=inf['args'], files=files, label=label))
    with concurrent.futures.ThreadPoolExecutor(max_workers=common.NCPU) as ex:
        tres = list(ex.map(torn_case, tjobs))
    torn_refused, torn_out, torn_accepted = {}, {}, []
    for job, res in zip(tjobs, tres):
        pl = by_pi[job['pi']]['plan']
        backend = pl['backend']
        desc = dict(replay='torn', backend=backend, variant=pl['variant'], torn=job['label'], args=job['args'], kinds=job['kinds'],
                    modified=by_pi[job['pi']]['mod'], base_args=pl['args'], tasks=pl['sc']['tasks'], selected=pl['sc']['selected'])
        out.evaluations += 1
        out.count('torn-write:%s' % backend)
        if not res['ok']:
            out.mismatches.append(dict(case=desc, impl='run before the simulated torn write failed rc=%s' % res['rc'], model=''))
            continue
        out.nontrivial.add(('torn', backend, job['pi'], job['label']))
        judge_after(out, res, 'torn:%s' % backend, desc, 'simulated torn write (%s)' % job['label'],
                    'truncate the DB file as described', backend, torn_refused, surprising)
        key = 'refused(exit 3)' if res['rc2'] == 3 else ('accepted, executed %d skipped %d' % (len(res['executed2']), len(res['skipped2'])))
        torn_out.setdefault(backend, {})
        torn_out[backend][key] = torn_out[backend].get(key, 0) + 1
        if backend == 'dbm' and res['rc2'] != 3:
            torn_accepted.append(dict(torn=job['label'], executed=res['executed2'], skipped=res['skipped2']))
        if backend == 'json' and res['rc2'] != 3:
            out.violations.append(dict(what='JsonDB accepted a proper prefix of its document (%s): J-prefix fails on the real _load' % job['label'],
                                       shape='assumption:J-prefix-load', case=desc))
    out.extra['simulated_torn_writes'] = dict(cases=len(tjobs), outcome=torn_out, refused_by_exception=torn_refused,
                                              dbm_torn_line_accepted=torn_accepted[:8])
    out.extra['kill_points_per_backend'] = per_backend
    out.extra['kill_syscall_counts_per_scenario'] = [dict(backend=inf['plan']['backend'], variant=inf['plan']['variant'], args=inf['args'], calls=inf['counts'])
                                                     for inf in plan_info]
    out.extra['disk_state_after_kill_by_backend'] = labels_seen
    out.extra['next_run_refused_exit3_by_backend_and_exception'] = refused
    out.extra['sound_but_surprising'] = surprising
    return plan_info


def nlist(b):
    return '[' + '; '.join(str(x) for x in b) + ']%N'


# ------------------------------------------------------------------ (3) dbm.dumb step model against the real module
def dumb_case(job):
    d, sessions = job
    os.makedirs(d)
    ok = True
    for si, sess in enumerate(sessions):
        sp = os.path.join(d, 's%d.json' % si)
        with open(sp, 'w') as f:
            json.dump(sess, f)
        p = subprocess.run([common.PY, os.path.join(HERE, 'c06.py'), '--dumb', sp], env=common.impl_env(),
                           stdout=subprocess.PIPE, stderr=subprocess.PIPE, timeout=60)
        ok = ok and p.returncode == 0
    exp = enc_dumb_files(d) if ok else [98]
    shutil.rmtree(d, ignore_errors=True)
    return exp


def part_dumb_model(ctx, out, cases):
    rng = ctx.rng
    root = ctx.subdir('dumb')
    lens = [0, 1, 5, 511, 512, 513, 700, 1023, 1024, 1025, 1300]
    jobs = []
    for ci in range(ctx.n(30, 200)):
        d = os.path.join(root, 'd%d' % ci)
        keys = ['k%d' % i for i in range(4)]
        sessions = []
        for si in range(rng.choice([1, 2, 2, 3])):
            dels = [rng.choice(keys) for _ in range(rng.choice([0, 0, 1, 2]))]
            sk = rng.sample(keys, rng.randrange(0, 4))
            sets = [(k, rng.randrange(97, 123), rng.choice(lens)) for k in sk]
            sessions.append(dict(name=os.path.join(d, 'db'), dels=dels, sets=sets))
        jobs.append((d, sessions))
    with concurrent.futures.ThreadPoolExecutor(max_workers=common.NCPU) as ex:
        exps = list(ex.map(dumb_case, jobs))
    for ci, ((d, sessions), exp) in enumerate(zip(jobs, exps)):
        sess_coq = '[' + '; '.join('(%s, %s)' % (runlib.nl([int(k[1:]) for k in s['dels']]),
                                                 '[' + '; '.join('(%d, repeat %d %d%%nat)' % (int(k[1:]), c, n) for k, c, n in s['sets']) + ']')
                                   for s in sessions) + ']'
        cases.append(dict(model='enc_ddisk (dumb_sessions %s)' % sess_coq, expected=exp,
                          desc=('dumb-session', [dict(dels=s['dels'], sets=s['sets']) for s in sessions])))
        out.count('dumb-session:%d' % len(sessions))
        out.evaluations += 1
        if any(s['sets'] for s in sessions):
            out.nontrivial.add(('dumb', ci))
    out.extra['dumb_sessions_compared_with_Crash_v'] = len(jobs)


def rle(b):
    o, i = [], 0
    while i < len(b):
        j = i
        while j < len(b) and b[j] == b[i]:
            j += 1
        o += [b[i], j - i]
        i = j
    return o


def enc_dir(b):
    """.dir / .bak text -> [-1] missing | [n, key, pos, siz, ...]"""
    import ast
    if b is None:
        return [-1]
    o = []
    for line in b.decode('latin-1').splitlines():
        key, (pos, siz) = ast.literal_eval(line.rstrip())
        o += [int(key[1:]), pos, siz]
    return [len(o) // 3] + o


def enc_dumb_files(d):
    rd = lambda ext: open(os.path.join(d, 'db' + ext), 'rb').read() if os.path.exists(os.path.join(d, 'db' + ext)) else None
    dat = rd('.dat') or b''
    r = rle(dat)
    return [len(r) // 2] + r + enc_dir(rd('.dir')) + enc_dir(rd('.bak'))


# ------------------------------------------------------------------ (4) the oracle assumptions J-prefix / J-extra
def part_json_assumptions(ctx, out, plan_info):
    dec = json.JSONDecoder()
    docs, recs = set(), set()
    for inf in plan_info:
        for snap in (inf['old'], inf['new']):
            if inf['plan']['backend'] == 'json' and snap.get(DBNAME):
                docs.add(snap[DBNAME])
                try:
                    for k, v in json.loads(snap[DBNAME]).items():
                        recs.add(json.JSONEncoder().encode(v).encode())
                except ValueError:
                    pass
            if inf['plan']['backend'] == 'dbm':
                v = dumb_view(snap)
                if isinstance(v, dict):
                    recs.update(x for x in v.values() if isinstance(x, bytes))
    n_pref = n_extra = 0
    bad = []
    for doc in sorted(docs | recs):
        text = doc.decode('utf-8')
        step = 1 if len(text) < 3000 else 17
        for i in list(range(0, len(text), step)) + list(range(max(0, len(text) - 40), len(text))):
            n_pref += 1
            try:
                dec.decode(text[:i])
                bad.append(('prefix', text[:i][-40:]))
            except ValueError:
                pass
    # records of other lengths: the same records with longer / shorter numbers and strings
    for r in sorted(recs):
        try:
            obj = json.loads(r)
        except ValueError:
            continue
        for f in (lambda o: {k: (v + [1, 2, 3] if isinstance(v, list) else v) for k, v in o.items()},
                  lambda o: {k: (v[:1] if isinstance(v, list) else v) for k, v in o.items()},
                  lambda o: dict(list(o.items())[:2])):
            recs.add(json.JSONEncoder().encode(f(obj)).encode())
    rl = sorted(recs)
    for a in rl:
        for b in rl:
            if len(a) < len(b):
                n_extra += 1
                try:
                    dec.decode((a + b[len(a):]).decode('utf-8', 'replace'))
                    bad.append(('extra', a[-20:] + b[len(a):][:20]))
                except ValueError:
                    pass
    for kind, what in bad[:3]:
        out.violations.append(dict(what='oracle assumption J-%s of Properties/C06.v fails: the JSON decoder accepts %r' % (kind, what),
                                   shape='assumption:J-' + kind, case=dict(text=repr(what))))
    out.extra['J_prefix_checked'] = n_pref
    out.extra['J_extra_checked'] = n_extra
    out.extra['documents_and_records_seen'] = len(docs | recs)


# ------------------------------------------------------------------ (1e) the class that executes the callable, (1f) the working directory
ACTION_FORMS = ('callable', 'tuple', 'pyaction', 'interactive', 'cmdcallable')
FORM_MODEL = {'callable': 'CPython', 'tuple': 'CPython', 'pyaction': 'CPython', 'interactive': 'CPyInteractive', 'cmdcallable': 'CCmdCallable'}
FORM_WHAT = {'callable': 'a plain callable (PythonAction)', 'tuple': 'a (callable, args, kwargs) tuple (PythonAction)',
             'pyaction': 'a doit.action.PythonAction object', 'interactive': 'a doit.tools.PythonInteractiveAction object',
             'cmdcallable': 'a CmdAction whose command is computed by a callable'}
EXC_WHAT = {'kbd': 'KeyboardInterrupt', 'sysexit': 'SystemExit', 'ok': 'nothing (the run simply ends)'}


def form_of(act):
    return act.get('cls') or 'callable'


def fixed_class_scenario():
    """the task set of the systematic (seed-independent) block of (1e): executed in the order t2, t1, t0; every form of ACTION_FORMS is
    the form of some action, the two classes of doit.tools / CmdAction(callable) at first, middle and last positions"""
    ok = lambda **kw: dict(kind='ok', **kw)
    tasks = [
        dict(name='t0', file_dep=['src0'], targets=['out0'], task_dep=['t1'], teardown=False, pad=0,
             actions=[ok(cls='cmdcallable'), ok(cls='tuple'), ok(cls='interactive')]),
        dict(name='t1', file_dep=['src1', 'out2'], targets=['out1'], task_dep=[], teardown=True, pad=7, io={'capture': False}, verbosity=2,
             actions=[ok(cls='interactive', ret='dict'), ok(cls='cmdcallable'), ok(cls='pyaction')]),
        dict(name='t2', file_dep=['src2'], targets=['out2'], task_dep=[], teardown=False, pad=0,
             actions=[ok(cls='pyaction', ret='str'), ok(cls='interactive')]),
    ]
    return dict(tasks=tasks, selected=['t0'])


def fixed_chdir_scenario():
    """the task set of the systematic block of (1f): executed in the order t2, t1, t0.  doit is started in the run directory with the DB file
    named relative to it (reldb) and every other file by its absolute name (abspaths); the first action of t1 changes the working directory
    to <run dir>/wd1, the first action of t0 to <run dir>/wd1/wd2"""
    ok = lambda **kw: dict(kind='ok', **kw)
    tasks = [
        dict(name='t0', file_dep=['src0'], targets=['out0'], task_dep=['t1'], teardown=False, pad=0, actions=[ok(chdir='wd1/wd2'), ok()]),
        dict(name='t1', file_dep=['src1', 'out2'], targets=['out1'], task_dep=[], teardown=True, pad=300, actions=[ok(chdir='wd1'), ok(cls='interactive')]),
        dict(name='t2', file_dep=['src2'], targets=['out2'], task_dep=[], teardown=False, pad=7, actions=[ok()]),
    ]
    return dict(tasks=tasks, selected=['t0'], reldb=True, abspaths=True)


# (target, action index, label): where the run of the systematic block of (1f) is cut
FIXED_CHDIR_POINTS = [('t1', 1, 'chdir-by-earlier-action-of-the-interrupted-task'), ('t0', 1, 'chdir-by-earlier-tasks'),
                      ('t1', 0, 'chdir-by-the-interrupted-action-itself'), ('t0', 0, 'second-chdir-by-the-interrupted-action')]


def assign_forms(rng, sc):
    """give every action of a generated task set a form; CmdAction(callable) only where the action is neither the last one (that one writes
    the targets and the log) nor returns values"""
    for t in sc['tasks']:
        for ai, a in enumerate(t['actions']):
            a.pop('cmd', None)
            forms = ['callable', 'tuple', 'pyaction', 'interactive', 'interactive']
            if ai < len(t['actions']) - 1 and not a.get('ret'):
                forms += ['cmdcallable', 'cmdcallable']
            a['cls'] = rng.choice(forms)
    return sc


def class_jobs(ctx, base):
    """the cases of (1e) and (1f): two systematic blocks (no PRNG draw) + random points in generated task sets"""
    rng = ctx.rng
    jobs = []

    def add(sc, backend, runner, variant, kind, target, ai, label, **kw):
        modify = kw.pop('modify', None)
        jobs.append(dict(dir=os.path.join(base, 'e%d' % len(jobs)), sc=sc, backend=backend, variant=variant, target=target, ai=ai, kind=kind,
                         modify=(sources_of(sc) if variant == 'prior' else []) if modify is None else modify, failing=None, runner=runner,
                         args=list(RUNNER_ARGS[runner]), label=label, replay='action-class', **kw))
    # ---- (1e) systematic: the interrupt inside every action of the fixed set (every form), both exceptions, every runner flavour
    csc = fixed_class_scenario()
    points = [(t['name'], ai) for t in csc['tasks'] for ai in range(len(t['actions']))]
    for ri, runner in enumerate(('serial', 'thread', 'process')):
        for pi, (target, ai) in enumerate(points):
            for ki, kind in enumerate(('kbd', 'sysexit')):
                if ctx.quick and runner != 'serial' and (pi + ki + ri) % 2:
                    continue       # quick tier, parallel runners: the two exceptions alternate over the points (thread and process: opposite phases)
                for bi, backend in enumerate(BACKENDS):
                    if ctx.quick and bi != (pi + ki + ri) % 3:
                        continue   # quick tier: the backend rotates over the points
                    for variant in (('prior',) if ctx.quick else ('prior', 'fresh')):
                        add(csc, backend, runner, variant, kind, target, ai, 'class', fixed=True)
    # ---- (1f) systematic: an action changed the working directory before the run is cut (or simply ends)
    dsc = fixed_chdir_scenario()
    for ri, runner in enumerate(('serial', 'thread', 'process')):
        for pi, (target, ai, label) in enumerate(FIXED_CHDIR_POINTS):
            for bi, backend in enumerate(BACKENDS):
                if ctx.quick and runner == 'process' and bi != pi % 3:
                    continue       # a worker process changes ITS directory, not the one of the process that owns the DB: sampled in the quick tier
                for ki, kind in enumerate(('kbd', 'sysexit', 'ok')):
                    if ctx.quick and ki != (pi + bi + ri) % 3 and not (runner == 'serial' and kind == 'kbd'):
                        continue
                    for variant in ((('prior', 'fresh')[(pi + bi + ki) % 2],) if ctx.quick else ('prior', 'fresh')):
                        add(dsc, backend, runner, variant, kind, target, ai, label, fixed=True)
    n_fixed = len(jobs)
    # ---- from the PRNG: generated task sets (plain and value ones) with a form on every action; any task / action; some of them with the
    # DB named relative to the start directory and an action (of any task, at or before the point or after it) changing the working directory
    scs = [assign_forms(rng, gen_scenario(rng, n)) for n in ([3, 4] if ctx.quick else [2, 3, 3, 4, 4])]
    scs += [assign_forms(rng, gen_value_scenario(rng, n)) for n in ([3] if ctx.quick else [3, 4, 2])]
    for sc in scs:
        srcs = sources_of(sc)
        for _ in range(ctx.n(6, 24)):
            sc2 = json.loads(json.dumps(sc))
            t = rng.choice(sc2['tasks'])
            ai = rng.randrange(len(t['actions']))
            label = 'class'
            if rng.random() < 0.4:
                sc2['reldb'] = sc2['abspaths'] = True
                label = 'chdir-random'
                for _ in range(rng.choice([1, 1, 2])):
                    tt = rng.choice(sc2['tasks'])
                    rng.choice(tt['actions'])['chdir'] = rng.choice(['wd1', 'wd1/wd2', 'wd3'])
            variant = rng.choice(['fresh', 'prior', 'prior'])
            own = ['src' + t['name'][1:]] + ([t['revfile']] if t.get('revfile') else [])
            modify = sorted(set(rng.sample(srcs, rng.randrange(0, len(srcs) + 1)) + own)) if variant == 'prior' else []
            add(sc2, rng.choice(BACKENDS), rng.choice(['serial', 'serial', 'thread', 'process']), variant,
                rng.choice(['kbd', 'kbd', 'sysexit', 'sysexit', 'ok'] if label != 'class' else ['kbd', 'sysexit']), t['name'], ai, label, modify=modify)
    return jobs, n_fixed


def judge_interrupt(job, res):
    """the oracles of (1) on one case of (1e) / (1f).  kind 'ok': nothing is raised, the run simply ends.
    Returns (violations [(shape suffix, sentence)], was the point reached)"""
    sc = job['sc']
    names = [t['name'] for t in sc['tasks']]
    ids = {nm: i for i, nm in enumerate(names)}
    v1, v2 = res['v1'], res['v2']
    ev = v1['events']
    kind, target, ai = job['kind'], job['target'], job['ai']
    k = ids[target]
    tt = sc['tasks'][k]
    act = tt['actions'][min(ai, len(tt['actions']) - 1)]
    serial = job['runner'] in ('serial', 'timestamp')
    started = [tuple(x) for x in v1['started']]
    raised = (target, ai) in started
    cut = kind in ('kbd', 'sysexit')
    moved = ['%s action %d -> %s' % tuple(c) for c in v1['chdirs']]
    where = '%s raised inside action %d of %s -- %s; io capture=%s, verbosity=%s -- (%s backend, %s runner, %s%s)' % (
        EXC_WHAT[kind], ai, target, FORM_WHAT[form_of(act)], capture_of(tt), tt.get('verbosity'), job['backend'], job['runner'], job['variant'],
        '; working directory changed before: %s; DB file named relative to the start directory' % moved if sc.get('reldb') else '')
    viol = []
    succ1 = [names[i] for i in ev_tasks(v1, 6)]
    if cut and raised:
        # oracle 0: the run IS interrupted
        why0 = []
        if res['rc1'] != 4:
            why0.append('the exception did not reach the caller of DoitMain.run (exit status %s%s)' % (res['rc1'], '' if v1['escaped'] else ', nothing escaped'))
        if [6, k] in ev or [7, k] in ev:
            why0.append('the interrupted task was %s' % ' and '.join(w for c, w in ((6, 'reported successful'), (7, 'saved as successful')) if [c, k] in ev))
        after = [x for x in started[started.index((target, ai)) + 1:] if x != (target, ai)]
        if serial and after:
            why0.append('the run went on: actions started after the interrupt: %s' % after)
        if why0 and ([6, k] in ev or [7, k] in ev or (serial and after) or res['rc1'] in (0, 1, 2)):
            viol.append(('swallowed', 'SWALLOWED INTERRUPT: %s did not end the run: %s' % (where, '; '.join(why0))))
        elif why0:
            # the run did end there, but by something else than the exception that was raised (e.g. exit 3: an error of the DB flush took its place)
            viol.append(('masked', '%s: the run ended, but not by that exception: %s; stderr: %s' % (where, '; '.join(why0), res.get('err1', '').strip().splitlines()[-1:])))
        elif not res['closed']:
            viol.append(('exit', '%s: exit status %s but the DB was not closed' % (where, res['rc1'])))
        # oracle 1: the conclusions of C06_interrupt_flush / C06_interrupt_never_swallowed on the trace
        if serial and not why0:
            why = trace_oracle(ev, k)
            if why:
                viol.append(('trace', '%s: %s' % (where, why)))
    elif not cut:
        if res['rc1'] != 0:
            viol.append(('rc', '%s: the run that nothing interrupts exits %s: %s' % (where, res['rc1'], res.get('err1', '')[-200:])))
        if ev.count([10]) != 1:
            viol.append(('not-flushed', '%s: Dependency.close ran %d times' % (where, ev.count([10]))))
    # oracle 2 / 2b: what the DB records afterwards (real backend class), record by record; values shown to uptodate callables / getargs
    if res['recorded'] != res['expected_recorded']:
        viol.append(('db', '%s: afterwards the %s DB in the directory doit was started in records %s, the successful+flushed tasks are %s%s'
                     % (where, job['backend'], res['recorded'], res['expected_recorded'],
                        '; stray DB files: %s' % res.get('stray1') if sc.get('reldb') else '')))
    seen = set()
    for ckind, what in res['complaints']:
        if ckind not in seen:
            seen.add(ckind)
            viol.append((ckind, '%s: %s' % (where, what)))
    # oracle 3: the next run
    skipped2 = sorted(names[i] for i in ev_tasks(v2, 3))
    executed2 = sorted(names[i] for i in ev_tasks(v2, 5))
    if res['rc2'] != 0:
        viol.append(('next-rc', '%s: the next run exits %s: %s' % (where, res['rc2'], res['err2'][-200:])))
    elif skipped2 != res['expect_skip2']:
        lying = sorted(set(skipped2) - set(res['expect_skip2']))
        viol.append(('lying', '%s: LYING DB: the next run skips %s which have no flushed successful execution with the present state' % (where, lying))
                    if lying else
                    ('forgot', '%s: the next run forgot %s (executed although recorded successful and unchanged)'
                     % (where, sorted(set(res['expect_skip2']) - set(skipped2)))))
    never = {t['name'] for t in sc['tasks'] if t.get('getargs')
             and sc['tasks'][ids[t['getargs'][0]]]['actions'][-1].get('ret') not in ('dict', 'str')}
    again = [nm for nm in succ1 if nm in v2['sel'] and nm in executed2 and nm not in never]
    if again and not any(s == 'forgot' for s, _ in viol):
        viol.append(('forgot', '%s: reported successful before the run was cut, executed again by the next run although nothing changed: %s' % (where, again)))
    if cut and raised and target in v2['sel'] and target not in executed2:
        viol.append(('lying', '%s: LYING DB: the interrupted task %s was skipped by the next run' % (where, target)))
    return viol, raised


CHDIR_SHAPE = 'c06:chdir-diverts-db-flush'
CHDIR_KINDS = ('db', 'db-complete-run', 'forgot', 'next-rc', 'unreadable', 'record', 'saved-values', 'values', 'getargs', 'rc', 'not-flushed', 'masked')


def part_action_class(ctx, out, cases):
    base = ctx.subdir('cls')
    jobs, n_fixed = class_jobs(ctx, base)
    with concurrent.futures.ThreadPoolExecutor(max_workers=common.NCPU) as ex:
        results = list(ex.map(interrupt_case, jobs))
    n_model = 0
    for job, res in zip(jobs, results):
        sc = job['sc']
        desc = dict(res['job'])
        if res.get('skipped_known_c17'):
            out.count('history-run-died-of-known-C17-thread-stream-race')
        for kind_, what in res['problems']:
            out.mismatches.append(dict(case=desc, impl=what, model='harness could not set up the case'))
        if 'v1' not in res:
            for ckind, what in res['complaints']:
                if ckind == 'db-complete-run':
                    out.violations.append(dict(what=what, shape=CHDIR_SHAPE, case=desc))
            continue
        out.evaluations += 1
        names = [t['name'] for t in sc['tasks']]
        v1 = res['v1']
        tt = sc['tasks'][names.index(job['target'])]
        form = form_of(tt['actions'][min(job['ai'], len(tt['actions']) - 1)])
        viol, raised = judge_interrupt(job, res)
        moved = bool(sc.get('reldb') and (v1['chdirs'] or any(c[0] == 'db-complete-run' for c in res['complaints'])))
        if sc.get('reldb'):
            out.count('chdir:%s:%s:%s:%s%s' % (job['label'], job['backend'], job['runner'], job['kind'], ':systematic' if job.get('fixed') else ''))
            out.count('chdir:working-directory-changed-before-the-run-was-cut:%s' % bool(v1['chdirs']))
        else:
            out.count('action-class:%s:%s:%s%s' % (form, job['kind'], job['runner'], ':systematic' if job.get('fixed') else ''))
            out.count('action-class-backend:%s:%s' % (form, job['backend']))
        if raised:
            out.nontrivial.add(('cls', form, bool(sc.get('reldb')), job['backend'], job['variant'], job['runner'], job['kind'], job['ai'], tuple(v1['trace']),
                                tuple(tuple(c) for c in v1['chdirs'])))
            out.count('action-class-reached:%s:tasks-reported-successful-before:%d' % (form, min(2, len(ev_tasks(v1, 6)))))
        elif job.get('fixed'):
            out.mismatches.append(dict(case=desc, impl='the point was not reached: trace %s rc %s %s' % (v1['trace'], res['rc1'], res.get('err1', '')[-300:]),
                                       model='systematic blocks of (1e)/(1f): every point is reached'))
        else:
            out.count('action-class:point-not-reached (task not selected / up-to-date / after a failing one)')
        # correspondence with Model/Runner.v + Crash.v: ONE trace and ONE DB whatever the class of the action and the working directory
        if job['runner'] == 'serial':
            case, _ = model_case(sc, job, res, desc, str(len(cases)))
            case['desc'] = ('action-class-trace+db', desc)
            cases.append(case)
            n_model += 1
        for sfx, what in viol:
            if moved and sfx in CHDIR_KINDS:
                shape = CHDIR_SHAPE
            elif sc.get('reldb'):
                shape = 'c06:chdir:%s:%s:%s' % (job['backend'], job['runner'], sfx)
            else:
                shape = 'c06:action-class:%s:%s:%s' % (form, job['kind'], sfx)
            out.violations.append(dict(what=what, shape=shape, case=desc))
        if raised and len(ev_tasks(v1, 6)) and not any(x.get('kind') == 'action-class:' + form for x in out.samples) and len(out.samples) < 6 and form != 'callable':
            out.samples.append(dict(kind='action-class:' + form, raised=job['kind'], interrupted=job['target'], action=job['ai'], backend=job['backend'],
                                    runner=job['runner'], trace=v1['trace'], exit=res['rc1'], recorded_after=res['recorded'],
                                    working_directory_changes=v1['chdirs'],
                                    next_run_skipped=sorted(names[i] for i in ev_tasks(res['v2'], 3)),
                                    next_run_executed=sorted(names[i] for i in ev_tasks(res['v2'], 5))))
    out.extra['action_class_and_chdir_runs'] = len(jobs)
    out.extra['action_class_and_chdir_runs_systematic'] = n_fixed
    out.extra['action_class_and_chdir_runs_compared_with_Runner_v_and_Crash_v'] = n_model


# ---- (1e) the `execute` of the real classes against Model/ActionClass.v
RTAGS = ['RTrue', 'RFalse', 'RNone', 'RStr', 'RDict', 'RTaskFailed', 'RTaskError', 'ROther', 'RRaises', 'RBaseExc']


def callable_ends(form):
    """[(rtag, label, thunk giving the value to return / exception to raise, exit status of the command)]: the ways a callable ends"""
    from doit.exceptions import TaskFailed, TaskError, InvalidTask
    import asyncio
    ret = lambda v: (lambda: ('ret', v))
    exc = lambda e: (lambda: ('raise', e))
    ends = [('RTrue', 'True', ret(True), 0), ('RFalse', 'False', ret(False), 0), ('RNone', 'None', ret(None), 0),
            ('RDict', 'dict', ret({'k': [1, 2]}), 0), ('RDict', 'empty-dict', ret({}), 0),
            ('RTaskFailed', 'TaskFailed-object', ret(TaskFailed('c06')), 0), ('RTaskError', 'TaskError-object', ret(TaskError('c06')), 0),
            ('ROther', 'int', ret(7), 0), ('ROther', 'float', ret(3.5), 0), ('ROther', 'list-of-int', ret([1]), 0), ('ROther', 'tuple', ret(('a',)), 0),
            ('RRaises', 'RuntimeError', exc(RuntimeError('c06')), 0), ('RRaises', 'OSError', exc(OSError('c06')), 0),
            ('RRaises', 'KeyError', exc(KeyError('c06')), 0), ('RRaises', 'InvalidTask', exc(InvalidTask('c06')), 0),
            ('RRaises', 'StopIteration', exc(StopIteration()), 0),
            ('RBaseExc', 'KeyboardInterrupt', exc(KeyboardInterrupt('c06')), 0), ('RBaseExc', 'SystemExit(7)', exc(SystemExit(7)), 0),
            ('RBaseExc', 'SystemExit(0)', exc(SystemExit(0)), 0), ('RBaseExc', 'GeneratorExit', exc(GeneratorExit('c06')), 0),
            ('RBaseExc', 'user-BaseException', exc(C06Abort('c06')), 0), ('RBaseExc', 'CancelledError', exc(asyncio.CancelledError('c06')), 0)]
    if form == 'cmdcallable':
        ends += [('RStr', 'cmd-true', ret('true'), 0), ('RStr', 'cmd-false', ret('false'), 1), ('RStr', 'cmd-exit-3', ret('exit 3'), 3),
                 ('RStr', 'cmd-exit-126', ret('exit 126'), 126), ('RStr', 'cmd-exit-200', ret('exit 200'), 200), ('RStr', 'cmd-killed', ret('kill -9 $$'), -9)]
    else:
        ends += [('RStr', 'str', ret('c06 result'), 0), ('RStr', 'empty-str', ret(''), 0)]
    return ends


def build_action(form, fn):
    """the object a task's `actions` list holds for this form"""
    if form == 'tuple':
        return (fn, [], {})
    if form == 'pyaction':
        from doit.action import PythonAction
        return PythonAction(fn)
    if form == 'interactive':
        from doit.tools import PythonInteractiveAction
        return PythonInteractiveAction(fn)
    if form == 'cmdcallable':
        from doit.action import CmdAction
        return CmdAction(fn)
    return fn


def aout_code(r, escaped):
    from doit.exceptions import TaskFailed, TaskError
    if escaped:
        return 3
    return 0 if r is None else (1 if isinstance(r, TaskFailed) else (2 if isinstance(r, TaskError) else 9))


def part_class_model(ctx, out):
    """`execute` of the real action classes (through a real Task, so that create_action builds them and io.capture is what a task gives) on every
    (form, way the callable ends, capture mode), and Task.execute on lists of 1-3 actions of mixed forms, against Model/ActionClass.v"""
    from doit.task import Task, Stream
    rng = ctx.rng
    ccases = []
    for form in ACTION_FORMS:
        for tag, label, thunk, rc in callable_ends(form):
            for cap in ((True, False, None) if (not ctx.quick or tag in ('RBaseExc', 'RRaises')) else (True, False)):
                box = {}

                def fn(thunk=thunk, box=box):
                    how, v = thunk()
                    if how == 'raise':
                        raise v
                    box['v'] = v
                    return v
                try:
                    task = Task('c06cls', [build_action(form, fn)], io={'capture': cap})
                    task.init_options()
                    a = task.actions[0]
                    try:
                        r, escaped = a.execute(None, None), None
                    except BaseException as e:   # noqa
                        r, escaped = None, type(e).__name__
                    obs = [aout_code(r, escaped), int('v' in box and a.result is box['v'] and box['v'] is not None),
                           int('v' in box and isinstance(box['v'], dict) and a.values is box['v'])]
                except Exception as e:   # noqa
                    obs = [98, 0, 0]
                    escaped = 'harness: %r' % e
                ccases.append(dict(model='enc_cls (Build_cact %s %s (%d)%%Z)' % (FORM_MODEL[form], tag, rc), expected=obs,
                                   desc=('action-class-execute', dict(form=form, callable_ends_by=label, capture=str(cap), escaped=escaped))))
                out.evaluations += 1
                out.count('class-execute:%s:%s' % (form, tag))
                if tag == 'RBaseExc':
                    out.nontrivial.add(('cls-exec', form, label, str(cap)))
    # Task.execute on lists of actions of mixed forms: outcome and how many callables were started
    simple = {'RTrue': lambda: ('ret', True), 'RFalse': lambda: ('ret', False), 'RDict': lambda: ('ret', {'k': 1}), 'ROther': lambda: ('ret', 7),
              'RRaises': lambda: ('raise', RuntimeError('c06')), 'RBaseExc': None, 'RStr': None}
    for _ in range(ctx.n(40, 300)):
        n = rng.choice([1, 2, 2, 3, 3])
        spec = []
        for i in range(n):
            form = rng.choice(ACTION_FORMS)
            tag = rng.choice(['RTrue', 'RTrue', 'RStr', 'RStr', 'RDict', 'RFalse', 'ROther', 'RRaises', 'RBaseExc', 'RBaseExc'])
            rc = 0
            if tag == 'RStr':
                rc = rng.choice([0, 0, 1]) if form == 'cmdcallable' else 0
                thunk = (lambda rc=rc: ('ret', 'true' if rc == 0 else 'false')) if form == 'cmdcallable' else (lambda: ('ret', 'c06 result'))
                label = 'str'
            elif tag == 'RBaseExc':
                label, e = rng.choice([('KeyboardInterrupt', KeyboardInterrupt('c06')), ('SystemExit', SystemExit(7)), ('GeneratorExit', GeneratorExit()),
                                       ('user-BaseException', C06Abort('c06'))])
                thunk = lambda e=e: ('raise', e)
            else:
                thunk, label = simple[tag], tag
            spec.append((form, tag, rc, thunk, label))
        called = set()

        def mk(i, thunk):
            def fn():
                called.add(i)
                how, v = thunk()
                if how == 'raise':
                    raise v
                return v
            return fn
        try:
            task = Task('c06cls', [build_action(f, mk(i, th)) for i, (f, _, _, th, _) in enumerate(spec)], io={'capture': rng.choice([True, False, None])})
            try:
                r, escaped = task.execute(Stream(0)), None
            except BaseException as e:   # noqa
                r, escaped = None, type(e).__name__
            obs = [aout_code(r, escaped), len(called)]
        except Exception as e:   # noqa
            obs = [98, 0]
        ccases.append(dict(model='enc_cls_task [%s]' % '; '.join('Build_cact %s %s (%d)%%Z' % (FORM_MODEL[f], tg, rc) for f, tg, rc, _, _ in spec),
                           expected=obs, desc=('action-class-task-execute', [dict(form=f, callable_ends_by=lb) for f, _, _, _, lb in spec])))
        out.evaluations += 1
        out.count('class-task-execute:outcome-%d' % obs[0])
        if obs[0] == 3:
            out.nontrivial.add(('cls-task', tuple((f, lb) for f, _, _, _, lb in spec)))
    items = [('', 'cmpZ (%s) %s' % (c['model'], common.zlist(c['expected']))) for c in ccases]
    outs = common.coq_eval(ctx, 'From DoitV Require Import Base Action ActionClass.\nOpen Scope Z_scope.\n', items,
                           shard=max(4, -(-len(items) // common.NCPU)), tag='c06cls')
    for c, o in zip(ccases, outs):
        if o != 'None':
            out.mismatches.append(dict(case=c['desc'], impl=c['expected'], model=common.parse_zlist(o)))
    out.extra['action_class_execute_cases_compared_with_ActionClass_v'] = len(ccases)
    return len(ccases)


PRE = runlib.PRE + 'From DoitV Require Import Backends Crash SaveRec.\n'


def compare(ctx, cases):
    """common.compare_with_model with shards small enough to use all cores"""
    items = [(c.get('defs', ''), 'cmpZ (%s) %s' % (c['model'], common.zlist(c['expected']))) for c in cases]
    outs = common.coq_eval(ctx, PRE, items, shard=max(4, -(-len(items) // common.NCPU)), tag='c06')
    return [(i, common.parse_zlist(o)) for i, o in enumerate(outs) if o != 'None']


def warm_dbm(ctx):
    """dbm.open chooses its default module on first use by importing dbm.gnu / dbm.ndbm / dbm.dumb; when the first uses happen
    concurrently in the worker threads of this harness, one thread can pick up the half-imported dbm.gnu of another (whose
    import is about to fail) and dbm stays broken for the whole process.  So: first use here, in the main thread."""
    import dbm
    d = ctx.subdir('warm-dbm')
    dbm.open(os.path.join(d, 'x'), 'c').close()
    db = open_backend(d, 'dbm')
    db._dbm.close()
    shutil.rmtree(d, ignore_errors=True)


def run(ctx):
    out = Outcome()
    warm_dbm(ctx)
    out.rule = ('interrupt: every (task, action index) of each generated task set x backend x {fresh, prior DB content[, earlier failing task]} x '
                '{KeyboardInterrupt, SystemExit}; value half: every (task, action index) of task sets with multi-action tasks returning value dicts / '
                'result strings, values-reading uptodate callables and getargs consumers x backend x {serial, thread} x {prior, prior + edit taken back, '
                'two prior runs}; execution modes: every generated task has io capture True/False/None/default, verbosity 0/1/2/default (and cmd-actions '
                'before the interrupted action) from the PRNG, plus a seed-independent block: every action of the capture False / None tasks of a fixed '
                'chain x backend x {serial, thread, process} x {KeyboardInterrupt, SystemExit}; kill: every (syscall, k) of the un-injected counting run x backend x {fresh, prior, prior+failing task}; '
                'other aborts (1d): a seed-independent block -- 17 abort points of a fixed 6-task set (other BaseException subclasses in an action, a raising '
                'uptodate callable, a raising value-saver / check_timestamp_unchanged(<missing>), three run-time cycles) x backend x {serial, thread, process} '
                '(quick, parallel runners: eight of the points on every backend, the others on one each) -- plus random (task, kind) points in generated task sets; '
                'action classes (1e): a seed-independent block -- the interrupt inside each of the 8 actions of a fixed 3-task set in which every form of action '
                '(callable, (callable, args, kwargs) tuple, PythonAction object, doit.tools.PythonInteractiveAction, CmdAction(callable)) occurs x {KeyboardInterrupt, '
                'SystemExit} x {serial, thread, process} x backend (quick: the backend rotates; parallel runners: the two exceptions alternate) -- plus random points in '
                'generated task sets whose actions get a form from the PRNG; and `execute` of the real classes on every (form, way the callable ends: 10 tags / 28 '
                'values and exception classes, capture mode) + Task.execute on random lists of 1-3 actions of mixed forms against Model/ActionClass.v; '
                'working directory (1f): a seed-independent block -- DB file named relative to the start directory, every other file by absolute name, actions that '
                'os.chdir() into sub-directories; the run cut at 4 points (chdir by an earlier action of the interrupted task / by earlier tasks / by the interrupted '
                'action itself) x {KeyboardInterrupt, SystemExit, no exception: the run simply ends} x backend x {serial, thread, process} x {prior, fresh} (quick: sampled '
                'by rotation, KeyboardInterrupt x serial x every backend x every point always) -- plus random chdir placements in the generated sets; '
                'history (1g): a seed-independent block -- fixed 4-task set (config_changed str / dict, run_once + values-reading callable, getargs consumer), why the '
                'tasks before the cut run again {targets removed, configuration + rev file edited, sources edited, nothing} x checker of the run before -> checker of '
                'the cut run {md5>timestamp, timestamp>md5, md5>md5, timestamp>timestamp} x backend (quick: the no-switch histories on one backend each) -- plus random '
                'histories (3-7 invocations, checker switches, target removals, configuration / source / rev edits and edits taken back, cut at a random action, serial / '
                'thread) of generated task sets with helpers from the PRNG; and Dependency.save_success on every (prior record under same / other / no checker, checker, '
                'backend) + random ones against Model/SaveRec.v; '
                'non-trivial = distinct (configuration, observed trace) of a run whose interrupt / abort point was reached / distinct kill point at which the process really died / '
                'distinct (form, exception class, capture) of an `execute` a BaseException leaves / distinct (backend, runner, checker sequence, traces of all runs) of a history whose cut point was reached / distinct save_success input')
    cases = []
    part_interrupt(ctx, out, cases)
    plan_info = part_kill(ctx, out, cases)
    part_dumb_model(ctx, out, cases)
    part_json_assumptions(ctx, out, plan_info)
    part_abort(ctx, out, cases)     # its PRNG draws come after those of every part above
    part_action_class(ctx, out, cases)   # (1e) / (1f): PRNG draws after those of every part above
    n_cls = part_class_model(ctx, out)
    c06_history.part_history(ctx, out, cases)   # (1g): PRNG draws after those of every part above
    bad = compare(ctx, cases)
    out.traces_validated = len(cases) + n_cls
    for i, m in bad:
        out.mismatches.append(dict(case=cases[i]['desc'], impl=cases[i]['expected'][:400], model=m[:400]))
    out.assumptions = [
        '(1d) aborts by an exception other than KeyboardInterrupt / SystemExit -- (a) another BaseException subclass raised by an action, (b) an exception of '
        'an uptodate callable at check time, (c) an exception of a value-saver after the actions ran -- have NO end in Model/Runner.v (its ends are StopNormal, '
        'StopCycle, StopHold, StopInterrupt; the shared core is not extended for this property): these runs are judged by the oracles only (the abort reaches '
        'the caller; close exactly once and nothing saved afterwards; the DB read by the real backend class; the next run); (d) a cyclic dependency found at '
        'run time IS StopCycle / StopHold of the model and the serial runs are compared with run_serial (trace, exit code 3, DB) -- C06_every_exit_flushes '
        'speaks about these ends',
        'the capture mode (io capture True/False/None), the verbosity and the action class (python-action / cmd-action) of a task are varied on the '
        'IMPLEMENTATION side only: Model/Runner.v and Model/Crash.v do not have these attributes -- the model has one trace for an interrupting action '
        '(execute, then close, exit by the escaping exception), so the correspondence check and oracle 0 (the interrupt ends the run) state what must '
        'happen in every execution mode; that doit takes the same decisions in every mode is observed (systematic block + PRNG), not proved',
        '(1e) the class that executes the callable IS modelled (Model/ActionClass.v: PythonAction, doit.tools.PythonInteractiveAction, CmdAction(callable); '
        'C06_interrupt_never_swallowed / C06_interrupt_any_action_class compose it with the serial runner) and compared with the `execute` of the real classes; '
        'NOT judged: doit.tools.LongRunning, documented to swallow a KeyboardInterrupt that arrives while doit waits for the command and to be always successful '
        '(the exception is not raised by the user action), and doit.tools.Interactive (a command, no callable)',
        '(1f) the working directory is not part of any model: Model/Backends.v / Crash.v have ONE file per DB, so the correspondence (trace + DB read in the directory '
        'doit was started in) and the oracles state what must happen wherever the process is when the DB is flushed; file_dep / targets are given to doit by '
        'absolute name in these cases (a relative file_dep after os.chdir is the user\'s own affair, not the DB\'s)',
        '(1g) what a run must skip in a history with checker switches / removed targets / edited configurations is judged by the harness\'s own ledger '
        '(harness/c06_history.py Ledger: last flushed saved execution per task with its logged dependency state, configuration value and checker setting), '
        'not by a model: Dependency.get_status is modelled for C03 (Model/Status.v), not in the cone of C06.  Modelled and compared here: Dependency.save_success '
        'on one record (Model/SaveRec.v; the pairs handed to backend.set are an input of the model, the guard against a record of another checker and the '
        'order guard-then-sets are the model\'s).  A decision about a task whose only known execution is recorded under the OTHER checker setting is not judged '
        '(doit documents a re-execution; the property text demands neither)',
        'PARTIAL: the on-disk behaviour of dbm.dumb, sqlite3 and the kernel is swept (kill at every traced system call), not proved',
        'J-prefix / J-extra (Section variables of Proofs/CrashP.v): json.JSONDecoder rejects every proper prefix of an encoded object and every '
        'encoded object followed by the tail of a longer one -- exercised on every DB document and record of this run',
        'sqlite3 commits atomically and rolls a hot journal back on the next open (trusted; swept by the kill points on name/name-journal)',
        'a kill (SIGKILL) takes effect between system calls: each write()/rename()/unlink()/open(O_TRUNC) is atomic and they reach the file in '
        'program order; block-level torn writes after power loss are outside the model',
        'a torn last line of a dbm.dumb .dir file makes dbm.dumb.open raise (SyntaxError/ValueError -> exit 3; modelled as: index unreadable) or, '
        'rarely, is read as an entry of a different shorter key with an unreadable value (the bytes \'t1\' are the python literal "t1", unpacked into '
        'key "t" and value "1"): the torn key is then absent and the other lines read as in the crash state before the torn write -- see '
        'simulated_torn_writes.dbm_torn_line_accepted; such states need a partially completed write() and are not produced by SIGKILL',
    ]
    out.extra['trusted_base'] = ['strace 6.1 signal injection (-e inject=<syscall>:signal=SIGKILL:when=k, one counter per syscall name) delivers the kill at '
                                 'entry of the k-th call of that syscall on the DB files',
                                 'harness/c06.py book-keeping of expected DB content (Book; Ledger of harness/c06_history.py) and the fsync\'ed action log']
    return out


def replay(ctx, payload):
    """re-run the case of a replay file against the repository under test and print what happens"""
    case = payload.get('case', {})
    print('property C06, recorded: %s' % payload.get('what'))
    kind = case.get('replay')
    if kind == 'history':
        return c06_history.replay_history(ctx, case)
    sc = dict(tasks=case.get('tasks'), selected=case.get('selected'), reldb=bool(case.get('reldb')), abspaths=bool(case.get('abspaths')))
    d = os.path.join(ctx.subdir('replay'), 'w')
    if kind == 'action-class':
        job = dict(dir=d, sc=sc, backend=case['backend'], variant=case['variant'], target=case['target'], ai=case['ai'], kind=case['kind'],
                   args=case['args'], modify=case.get('modify', []), failing=None, runner=case.get('runner', 'serial'),
                   history=case.get('history'), revert=[], replay='action-class')
        res = interrupt_case(job)
        for what in res.get('problems', []):
            print('harness problem: %s' % (what,))
        if 'v1' not in res:
            return 1
        names = [t['name'] for t in sc['tasks']]
        v1, v2 = res['v1'], res['v2']
        viol, raised = judge_interrupt(job, res)
        tt = sc['tasks'][names.index(job['target'])]
        print('the run that is cut: %s raised inside action %d of %s, which is %s' % (EXC_WHAT[job['kind']], job['ai'], job['target'],
                                                                                     FORM_WHAT[form_of(tt['actions'][min(job['ai'], len(tt['actions']) - 1)])]))
        print('  that action was started: %s; exit status %s (4 = the exception escaped DoitMain.run); trace=%s' % (raised, res['rc1'], v1['trace']))
        print('  actions started: %s; working directory changes: %s' % (v1['started'], v1['chdirs']))
        print('  reported successful before: %s; Dependency.close ran %d time(s)' % ([names[i] for i in ev_tasks(v1, 6)], v1['events'].count([10])))
        print('DB (in the directory doit was started in) records %s, expected %s; DB files elsewhere: %s' % (res['recorded'], res['expected_recorded'], res.get('stray1')))
        print('next run: rc=%s skipped=%s executed=%s, expected skipped=%s' % (res['rc2'], sorted(names[i] for i in ev_tasks(v2, 3)),
                                                                              sorted(names[i] for i in ev_tasks(v2, 5)), res['expect_skip2']))
        for sfx, what in viol:
            print('VIOLATED (%s): %s' % (sfx, what))
        return 1 if viol or res.get('problems') else 0
    if kind == 'interrupt':
        job = dict(dir=d, sc=sc, backend=case['backend'], variant=case['variant'], target=case['target'], ai=case['ai'], kind=case['kind'],
                   args=case['args'], modify=case.get('modify', []), failing=case.get('failing'), runner=case.get('runner', 'serial'),
                   history=case.get('history'), revert=case.get('revert', []))
        res = interrupt_case(job)
        names = [t['name'] for t in sc['tasks']]
        print('interrupted run: rc=%s trace=%s' % (res.get('rc1'), res.get('v1', {}).get('trace')))
        v1 = res.get('v1') or {'started': [], 'events': []}
        k = names.index(case['target'])
        raised = [case['target'], case['ai']] in [list(x) for x in v1['started']]
        swallowed = raised and (res.get('rc1') != 4 or [6, k] in v1['events'] or [7, k] in v1['events'])
        print('interrupting action started: %s; exit status of the interrupted run: %s (4 = the exception escaped DoitMain.run); '
              'actions started: %s%s' % (raised, res.get('rc1'), v1['started'], '  <-- SWALLOWED INTERRUPT' if swallowed else ''))
        print('DB records %s, expected %s' % (res.get('recorded'), res.get('expected_recorded')))
        v2 = res.get('v2', {'events': []})
        skipped = sorted(names[i] for i in ev_tasks(v2, 3))
        print('next run: rc=%s skipped=%s executed=%s, expected skipped=%s' % (res.get('rc2'), skipped, sorted(names[i] for i in ev_tasks(v2, 5)), res.get('expect_skip2')))
        tgt = case['target']
        lying = bool(raised and not case.get('revert') and tgt in v2.get('sel', {}) and tgt not in [names[i] for i in ev_tasks(v2, 5)])
        if lying:
            print('LYING DB: the interrupted task %s was skipped by the next run' % tgt)
        print('record of the interrupted task %s before the interrupted run: %s' % (tgt, canon(res.get('rec0', {}).get(tgt))))
        print('record of the interrupted task %s after  the interrupted run: %s' % (tgt, canon(res.get('rec1', {}).get(tgt))))
        for ckind, what in res.get('complaints', []):
            print('%s: %s' % (ckind, what))
        bad = (res.get('recorded') != res.get('expected_recorded') or skipped != res.get('expect_skip2') or res.get('rc2') != 0
               or res.get('complaints') or res.get('problems') or swallowed or lying)
        return 1 if bad else 0
    if kind == 'abort':
        job = dict(dir=d, sc=sc, backend=case['backend'], variant=case['variant'], target=case['target'], ai=case['ai'], kind=case['kind'],
                   args=case['args'], modify=case.get('modify', []), failing=None, runner=case.get('runner', 'serial'),
                   history=case.get('history'), revert=[], edges=case.get('edges'), replay='abort')
        res = interrupt_case(job)
        for what in res.get('problems', []):
            print('harness problem: %s' % (what,))
        if 'v1' not in res:
            return 1
        names = [t['name'] for t in sc['tasks']]
        v1, v2 = res['v1'], res['v2']
        viol, reached = judge_abort(job, res)
        print('aborted run: %s' % (ABORT_WHAT[job['kind']] % dict(ai=job['ai'], target=job['target'], edges=job.get('edges'))))
        print('  abort point reached: %s; exit status %s (97 = a BaseException escaped DoitMain.run: %s); trace=%s' % (reached, res['rc1'], v1['escaped'], v1['trace']))
        print('  reported successful before the abort: %s; Dependency.close ran %d time(s)' % ([names[i] for i in ev_tasks(v1, 6)], v1['events'].count([10])))
        print('  last lines of stderr: %s' % res.get('err1', '').strip().splitlines()[-2:])
        print('DB records %s, expected %s' % (res['recorded'], res['expected_recorded']))
        print('next run: rc=%s skipped=%s executed=%s, expected skipped=%s' % (res['rc2'], sorted(names[i] for i in ev_tasks(v2, 3)),
                                                                              sorted(names[i] for i in ev_tasks(v2, 5)), res['expect_skip2']))
        for sfx, what in viol:
            print('VIOLATED (%s): %s' % (sfx, what))
        return 1 if viol or res.get('problems') else 0
    if kind == 'kill':
        base = os.path.join(ctx.subdir('replay'), 'base')
        os.makedirs(base)
        for s_ in sources_of(sc):
            write_source(base, s_, 0)
        rid = 0
        if case['variant'] != 'fresh':
            run_child(base, sc, case['backend'], 0, args=case.get('base_args', []))
            for s_ in case.get('modified', []):
                write_source(base, s_, 1)
            rid = 1
        kinds = {k: tuple(v) for k, v in case.get('kinds', {}).items()}
        sname, k = case['inject'].split(':')
        res = kill_point(dict(dir=d, base=base, sc=sc, backend=case['backend'], rid=rid, kinds=kinds, args=case['args'], inject=(sname, int(k))))
        print('killed=%s; next run rc=%s skipped=%s executed=%s; skipped without a completed execution: %s'
              % (res['killed'], res['rc2'], res['skipped2'], res['executed2'], res['lies']))
        print(res['err2'][-400:])
        return 1 if (res['lies'] or res['rc2'] not in (0, 3)) else 0
    print(json.dumps(payload, indent=1)[:4000])
    return 0
