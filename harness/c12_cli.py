"""C12, Part C -- the command line in front of the selection: degenerate names in every position.

Dimension: arguments that are ALMOST something -- the empty string, blanks / tab / newline, a real task, sub-task, group or
target name changed by case, by a leading / trailing character (`a `, ` a`, `a\\n`, `a:`, `a/`, `'a'`), a proper prefix, the
word `run` out of place -- and arguments containing `=` (`x=1`, `a=`, `=a`, `=`: command line VARIABLES by documented design,
DoitMain.process_args, never selection elements), at every position of the command line (before / after the word `run`,
between the options of `doit run`, first / middle / last name, after a pattern, alone), for the explicit `run` command and the
default command, with --single / -s, with and without DOIT_CONFIG default_tasks (which may hold such names too: there a
string with `=` IS a name).

Documented reading of a command line (cli_reading, from the documentation alone): arguments `name=value` that do not start
with `-` are variables and are removed; if the first remaining argument is `run` it is the command; the following arguments
starting with `-` are options of `doit run`; everything from the first argument that does not start with `-` on is the
selection.  Every selection element is a name: it selects (task / target / sub-task / group / pattern) or the whole command
line is rejected with exit code 3 before anything executes; an empty selection means default_tasks, else all tasks.

C1  TaskControl level, runner replaced by a stub (as A2): `DoitMain(loader).run(argv)` on real Task lists
      == enc_cmd (doit_main ..)   (Model/Select.v Section Cli; the string tests are oracles tabulated here)
    and, with no model involved, on task lists without load error / delayed creator and command lines on which nothing is a
    task argument: exit 3 and no runner started iff some element is no task name, no declared target string and no pattern;
    else the runner is started once with exactly the list the elements stand for, in order (with --single: the selected
    non-group tasks have no task_dep left).
C2  complete real runs in-process (ModuleTaskLoader, generated dodo modules of Part B, recording reporter and actions)
    against oracle_b on the reading: exit 3 and NOTHING processed / executed for an unknown name (whatever is printed),
    else processed == closure, executed, start order, pos_arg values as in Part B.
C3  the same through the real command line `python -m doit [-f file] <argv>` in a sub-process (dodo file on disk, markers
    and the reporter log written to files).
Shapes (from the input alone): c12:cli-empty-name, c12:cli-blank-name, c12:cli-near-miss-name, c12:cli-variable-argument,
c12:cli-plain; c12:empty-string-argument-value = the empty string where the reading makes it the VALUE of a task option /
a pos_arg value (no selection element).
"""
import fnmatch, json, os, subprocess, sys
import common

RUN_FLAGS = {'-s': 'single', '--single': 'single', '--auto-delayed-regex': 'auto'}


# ---------------------------------------------------------------------------------------------
# the documented reading and the generators of the new dimension
def is_var(a):
    return (not a.startswith('-')) and '=' in a


def cli_reading(argv):
    """-> dict(single, auto, names) | dict(error='option')   (see the module docstring)"""
    toks = [a for a in argv if not is_var(a)]
    if toks and toks[0] == 'run':
        toks = toks[1:]
    single = auto = False
    while toks and toks[0].startswith('-'):
        what = RUN_FLAGS.get(toks[0])
        if what is None:
            return dict(error='option')
        single, auto = single or what == 'single', auto or what == 'auto'
        toks = toks[1:]
    return dict(single=single, auto=auto, names=toks)


BLANKS = ['', '', '', ' ', ' ', '\t', '\n', '  ']


def near_misses(n):
    """strings that differ from the real name n by case or by leading / trailing characters"""
    out = [n + ' ', ' ' + n, n + '\n', n + '\t', n + ':', ':' + n, n + '/', n + '.', "'%s'" % n, '"%s"' % n, n + n[-1:],
           n.upper(), n.capitalize(), n.swapcase(), n[:-1], n[1:], n + ' ' + n]
    return [x for x in out if x != n and '*' not in x]


def degenerate(rng, real):
    """one degenerate name; real = the task names and declared target strings of the case"""
    r = rng.random()
    if r < 0.45 or not real:
        return rng.choice(BLANKS)
    if r < 0.93:
        c = near_misses(rng.choice(real))
        c = [x for x in c if not x.startswith('-') and '=' not in x]
        return rng.choice(c) if c else ''
    return rng.choice(['run', 'Run', ' run', 'run '])


def variable(rng, real):
    n = rng.choice(real) if real and rng.random() < 0.6 else 'x'
    n = n.lstrip('-') or 'x'
    return rng.choice([n + '=1', n + '=', '=' + n, '=', n + '=a=b', n + '= ', ' =', n + '=*', 'x=y'])


def cli_shape(argv, names=None, value_positions=()):
    toks = [a for a in argv if not is_var(a)]
    if any(argv[i] == '' for i in value_positions):
        return 'c12:empty-string-argument-value'
    if '' in toks:
        return 'c12:cli-empty-name'
    if any(a.strip() == '' for a in toks):
        return 'c12:cli-blank-name'
    if any(a != a.strip() or a.lower() != a or a[-1:] in ':/.\'"' or a[:1] in ':\'"' for a in toks if not a.startswith('-')):
        return 'c12:cli-near-miss-name'
    if len(toks) != len(argv):
        return 'c12:cli-variable-argument'
    return 'c12:cli-plain'


def build_argv(rng, names, real, explicit_run=None, flags=None, n_deg=None, n_var=None):
    """a complete command line around the selection `names`: degenerate names inserted at random positions of the
    selection, optionally the word `run` and options of `doit run` in front, variables anywhere (before `run` too)"""
    names = list(names)
    n_deg = rng.choice([0, 1, 1, 1, 2, 3]) if n_deg is None else n_deg
    where = []
    for _ in range(n_deg):
        pos = rng.choice([0, len(names), rng.randrange(0, len(names) + 1), rng.randrange(0, len(names) + 1)])
        names.insert(pos, degenerate(rng, real))
        where.append('first' if pos == 0 else ('last' if pos == len(names) - 1 else 'middle'))
    explicit_run = (rng.random() < 0.5) if explicit_run is None else explicit_run
    if flags is None:
        flags = []
        if rng.random() < 0.3:
            flags.append(rng.choice(['-s', '--single']))
        if rng.random() < 0.08:
            flags.insert(rng.randrange(0, len(flags) + 1), '--auto-delayed-regex')
    head = (['run'] if explicit_run else []) + list(flags)
    if not explicit_run and not head and names and names[0] == 'run':
        head = ['run']                     # `doit run ..` typed as a name IS the command: make that explicit in the counts
        names = names[1:]
        explicit_run = True
    argv = head + names
    n_var = rng.choice([0, 0, 0, 1, 1, 2]) if n_var is None else n_var
    for _ in range(n_var):
        argv.insert(rng.randrange(0, len(argv) + 1), variable(rng, real))
    return argv, dict(explicit_run=explicit_run, where=where, n_deg=n_deg, n_var=n_var)


def count_argv(out, part, argv, meta, rd):
    out.count('%s:%s' % (part, 'explicit-run' if meta['explicit_run'] else 'default-command'))
    for w in set(meta['where']):
        out.count('%s:degenerate-name-%s' % (part, w))
    toks = [a for a in argv if not is_var(a)]
    if '' in toks:
        out.count(part + ':empty-string-name')
    if any(a.strip() == '' and a for a in toks):
        out.count(part + ':blank-name')
    if len(toks) != len(argv):
        out.count(part + ':with-variable-argument')
        if is_var(argv[0]) and len(argv) > 1 and argv[1:2] == ['run']:
            out.count(part + ':variable-before-run')
    if 'names' in rd:
        if rd['single']:
            out.count(part + ':single')
        if not rd['names']:
            out.count(part + ':nothing-named' + (':only-variables' if len(toks) != len(argv) and not toks else ''))
        elif all(a.strip() == '' for a in rd['names']):
            out.count(part + ':only-blank-names')
    else:
        out.count(part + ':unknown-run-option')


# ---------------------------------------------------------------------------------------------
# C1: TaskControl level (stub runner), model + oracle
def clean_case(rng, c12):
    """a Part A case; mostly without load error and delayed creator, few tasks that take arguments"""
    for _ in range(40):
        case = c12.gen_a(rng)
        if case['defect'] == 'none' and not any(t['loader'] for t in case['tasks']):
            break
    for t in case['tasks']:
        if rng.random() < 0.7:
            t['pos_arg'], t['params'] = None, []
    return case


def twin_names(rng, case):
    """sometimes the near-miss IS a task: `A` next to `a`, `a ` next to `a` -- each selects exactly itself"""
    names = [t['name'] for t in case['tasks']]
    base = [t for t in case['tasks'] if t['subtask_of'] is None and not t['has_subtask'] and t['loader'] is None]
    if not base:
        return
    t = rng.choice(base)
    for new in rng.sample([t['name'].upper(), t['name'] + ' ', ' ' + t['name'], t['name'] + '.'], 2):
        if new not in names and '*' not in new and '=' not in new:
            case['tasks'].append(dict(t, name=new, task_dep=[], post_dep=[], setup=[], calc_dep=[], targets=[], file_dep=[]))
            names.append(new)


def gen_c1(rng, c12):
    case = clean_case(rng, c12) if rng.random() < 0.8 else c12.gen_a(rng)
    if rng.random() < 0.2:
        twin_names(rng, case)
    real = [t['name'] for t in case['tasks']] + [f for t in case['tasks'] for f in t['targets']]
    names = [] if rng.random() < 0.2 else list(case['sel'])
    if rng.random() < 0.35:
        # positive control: only elements that select something, with variables in between -- every one must survive, in order
        pool = [x for x in real if not x.startswith('-') and '=' not in x] + ['*', 'a*', 'zz*', 'g:*']
        names = [rng.choice(pool) for _ in range(rng.choice([1, 2, 2, 3, 4]))]
        argv, meta = build_argv(rng, names, real, n_deg=rng.choice([0, 0, 0, 1]), n_var=rng.choice([0, 1, 1, 2, 3]))
    else:
        argv, meta = build_argv(rng, names, real)
    if rng.random() < 0.06:       # an option `doit run` does not know, in option position
        k = 1 if argv[:1] == ['run'] else 0
        argv.insert(k, rng.choice(['-Z', '--zz']))
    if case['default'] is not None and rng.random() < 0.35:
        case['default'] = list(case['default'])
        case['default'].insert(rng.randrange(0, len(case['default']) + 1), rng.choice([degenerate(rng, real), variable(rng, real)]))
    case = dict(case, argv=argv, sel=list(argv), sel_none=False, single=False, auto=False)
    return case, meta


def scripted_c1():
    """the minimal command lines, every seed and tier (task list: a <- c (task_dep), b targets out.txt, group g of g:x)"""
    def t(name, **kw):
        d = dict(name=name, task_dep=[], post_dep=[], setup=[], calc_dep=[], file_dep=[], targets=[], has_subtask=False,
                 subtask_of=None, loader=None, pos_arg=None, params=[])
        d.update(kw)
        return d
    tasks = lambda: [t('a'), t('b', targets=['out.txt']), t('c', task_dep=['a']), t('g', has_subtask=True, post_dep=['g:x']),
                     t('g:x', subtask_of='g')]
    rows = [
        (['a', ''], None), (['run', 'a', '', 'c'], None), ([''], ['b']), (['run', '--single', ''], None), (['run', ''], ['b']),
        (['', 'a'], None), (['', 'run', 'a'], None), (['a', ' '], None), ([' '], ['b']), (['A'], None), (['a '], None),
        (['run', '-s', 'c', 'a\n'], None), (['OUT.TXT'], None), (['out.txt '], None), (['out.txt', 'g:x', 'G:x'], None),
        (['g:'], None), (['g:x '], None), (['*', ''], None), (['', '*'], None), (['zz*', ''], None),
        (['a=1'], ['b']), (['a=1'], None), (['x=1', 'run', 'c'], None), (['run', 'x=1', '-s', 'y=', 'c', '=z', 'b'], None),
        (['a', 'a=1', ''], None), (['='], ['c']), (['run', 'a', 'run'], None), (['a'], ['b', '']), ([], ['']), ([], ['b', 'a=1']),
        (['x=1'], ['', 'b']), (['run', '-Z', 'a'], None), (['a', 'c'], None),
    ]
    out = []
    for argv, default in rows:
        out.append((dict(tasks=tasks(), argv=argv, sel=list(argv), sel_none=False, default=default, single=False, auto=False,
                         defect='none', scripted='cli'), dict(explicit_run=argv[:1] == ['run'] or argv[1:2] == ['run'], where=[], n_deg=0, n_var=0)))
    return out


def run_c1(ctx, case, I, idx, c12):
    """-> (encoding as enc_cmd, raw observation)"""
    import doit.cmd_run as CR
    from doit.doit_cmd import DoitMain
    from doit.cmd_base import TaskLoader2
    wd = ctx.subdir('c1')

    class L(TaskLoader2):
        def setup(self, opt_values):
            pass

        def load_doit_config(self):
            cfg = {'dep_file': os.path.join(wd, 'db%d' % (idx % 7)), 'backend': 'json'}
            if case['default'] is not None:
                cfg['default_tasks'] = list(case['default'])
            return cfg

        def load_tasks(self, cmd, pos_args):
            return c12.build_tasks(case)
    c12.StubRunner.seen = []
    orig = CR.Runner
    CR.Runner = c12.StubRunner
    raw = dict(rc=None, started=0, selected=None, task_dep=None, stderr='')
    try:
        with c12.Quiet(wd) as q:
            try:
                raw['rc'] = DoitMain(L(), config_filenames=()).run(list(case['argv']))
            except BaseException as e:   # noqa
                raw['rc'], raw['exc'] = 98, '%s: %s' % (type(e).__name__, e)
        raw['stderr'] = q.err.getvalue()[-300:]
        raw['started'] = len(c12.StubRunner.seen)
        if raw['rc'] == 98:
            return [98], raw
        if raw['rc'] == 3 and not c12.StubRunner.seen:
            return [3], raw                      # whatever was printed
        if raw['rc'] == 0 and len(c12.StubRunner.seen) == 1:
            d = c12.StubRunner.seen[0]
            raw['selected'] = list(d.selected_tasks)
            raw['task_dep'] = {n: list(T.task_dep) for n, T in d.tasks.items()}
            return c12.enc_control(d.tasks, d.targets, d.selected_tasks, I), raw
        return [96, raw['rc']], raw
    finally:
        CR.Runner = orig


def oracle_c1(case, raw):
    """from the declared task list and the command line alone -> (what, ) or None; None also when the case is outside the
    domain of this oracle (load error, delayed creator, a token that is a task argument)"""
    if case['defect'] != 'none' or any(t['loader'] for t in case['tasks']):
        return None
    byn, declared = {}, {}
    for t in case['tasks']:
        if t['name'] in byn:
            return None
        byn[t['name']] = t
        for f in t['targets']:
            if f in declared:
                return None
            declared[f] = t['name']
    rd = cli_reading(case['argv'])
    cmdline = '`doit %s`' % ' '.join(repr(a) for a in case['argv'])
    if 'error' in rd:
        if raw['rc'] != 3 or raw['started']:
            return '%s: an option unknown to `doit run`: expected exit code 3 and no run, got exit code %s, runs started %s' % (
                cmdline, raw['rc'], raw['started'])
        return None
    names = rd['names']
    via_default = not names
    if via_default:
        if case['default'] is None:
            return None                                  # all tasks: Part A
        names = list(case['default'])
        cmdline += ' with default_tasks %r' % (case['default'],)
    if any(a.startswith('-') for a in names) or any('*' not in a and a in byn and byn[a].get('pos_arg') for a in names):
        return None                                      # task arguments: model only
    order = [t['name'] for t in case['tasks']]
    resolved, unknown = [], None
    for a in names:
        if '*' in a:
            resolved += fnmatch.filter(order, a)
        elif a in byn:
            resolved.append(a)
        elif a in declared:
            resolved.append(declared[a])
        else:
            unknown = a
            break
    if unknown is not None:
        if raw['rc'] != 3 or raw['started']:
            return ('%s: %r is no task, no sub-task, no group, no declared target and no pattern: expected exit code 3 before '
                    'anything runs; got exit code %s, runner started %s time(s) with the selection %r'
                    % (cmdline, unknown, raw['rc'], raw['started'], raw['selected']))
        return None
    if raw['rc'] != 0 or raw['started'] != 1:
        return '%s: every element is a task, a declared target or a pattern, expected a run of %r; got exit code %s, runs started %s, %s' % (
            cmdline, resolved, raw['rc'], raw['started'], raw['stderr'][-160:])
    if raw['selected'] != resolved:
        return '%s: the selection stands for %r (in this order), the runner was started with %r' % (cmdline, resolved, raw['selected'])
    if rd['single']:
        for n in resolved:
            if not byn[n]['has_subtask'] and raw['task_dep'].get(n):
                return '%s: --single, yet the selected task %r keeps task_dep %r' % (cmdline, n, raw['task_dep'][n])
    return None


def cli_defs(I, sfx, c12):
    """the three string oracles of Section Cli over every string of the case (after model_defs interned them all)"""
    plain = [s for s in I.strs if not s.startswith('re:')]
    flag = {'single': '(Some FSingle)', 'auto': '(Some FAuto)'}
    return '\n'.join([
        c12.fun1('iv' + sfx, 'bool', {I(s): 'true' for s in plain if is_var(s)}, 'false'),
        c12.fun1('irn' + sfx, 'bool', {I(s): 'true' for s in plain if s == 'run'}, 'false'),
        c12.fun1('rf' + sfx, 'option rflag', {I(s): flag[RUN_FLAGS[s]] for s in plain if s in RUN_FLAGS}, 'None'),
    ])


def part_c1(ctx, out, c12):
    rng = ctx.rng
    cases = []

    def inputs():
        for i, (c, m) in enumerate(scripted_c1()):
            yield 700000 + i, c, m
        for ci in range(ctx.n(220, 2500)):
            c, m = gen_c1(rng, c12)
            yield ci, c, m
    for ci, case, meta in inputs():
        I = c12.Intern()
        try:
            task_list = c12.build_tasks(case)
        except Exception:
            out.count('C1:unbuildable')
            continue
        sfx = 'c%d' % ci
        defs = c12.model_defs(case, task_list, I, sfx)
        n_before = len(I.strs)
        defs += '\n' + cli_defs(I, sfx, c12)
        assert len(I.strs) == n_before
        obs, raw = run_c1(ctx, case, I, ci, c12)
        rd = cli_reading(case['argv'])
        count_argv(out, 'C1', case['argv'], meta, rd)
        out.count('C1:' + {0: 'run-started', 3: 'exit3'}.get(obs[0], 'other'))
        if case.get('scripted'):
            out.count('C1:scripted')
        bad = oracle_c1(case, raw)
        judged = oracle_c1(case, dict(raw, rc=-1, started=0, selected=None)) is not None   # inside the oracle's domain?
        out.count('C1:judged-by-oracle' if judged else 'C1:model-only')
        if bad:
            out.violations.append(dict(what=bad, shape=cli_shape(case['argv']),
                                       case=dict(part='C1', tasks=case['tasks'], argv=case['argv'], default=case['default'], defect=case['defect'],
                                                 observed=dict(rc=raw['rc'], runs_started=raw['started'], selected=raw['selected'], stderr=raw['stderr'][-200:]))))
        orac = 'hs%s mt%s bn%s rm%s rn%s ir%s io%s iv%s irn%s rf%s' % ((sfx,) * 10)
        dflt = 'None' if case['default'] is None else '(Some %s)' % c12.nl(I(s) for s in case['default'])
        model = 'enc_cmd (doit_main %s %s %s tb%s)' % (orac, c12.nl(I(s) for s in case['argv']), dflt, sfx)
        cases.append(dict(defs=defs, model=model, expected=obs, desc=('C1', ci), case=dict(tasks=case['tasks'], argv=case['argv'], default=case['default'])))
        if len(case['tasks']) >= 3 and (meta['n_deg'] or meta['n_var'] or case.get('scripted')):
            out.nontrivial.add(('C1', ci, tuple(obs)))
        if ci in (0, 700000):
            out.samples.append(dict(part='C1', tasks=[(t['name'], t['task_dep'] + t['post_dep'], t['targets']) for t in case['tasks']],
                                    argv=case['argv'], default_tasks=case['default'], reading=rd, observed=obs))
    return cases


# ---------------------------------------------------------------------------------------------
# C2 / C3: complete real runs
PRELUDE = '''import json, os
def _log(kind, name):
    with open('events.log', 'a') as fh:
        fh.write(json.dumps([kind, name]) + chr(10))
def REC(name):
    _log('executed', name)
    return True
def RECP(name):
    def act(files):
        _log('executed', name)
        _log('posval', [name, None if files is None else list(files)])
    return act
class _Created(list):
    def append(self, x):
        _log('created', x)
CREATED = _Created()
class LogReporter:
    def __init__(self, outstream, options): pass
    def initialize(self, tasks, selected_tasks): pass
    def get_status(self, task): _log('status', task.name)
    def execute_task(self, task): pass
    def add_failure(self, task, fail): _log('fail', task.name)
    def add_success(self, task): pass
    def skip_uptodate(self, task): pass
    def skip_ignore(self, task): pass
    def cleanup_error(self, exception): pass
    def runtime_error(self, msg): _log('runtime_error', str(msg))
    def teardown_task(self, task): pass
    def complete_run(self): pass
'''


def make_subprocess_runner(c12, file_name):
    def run_sub(ctx, spec, argv, idx):
        """like c12.run_b, through `python -m doit` in a directory of its own"""
        d = spec['dir']
        src = c12.render_b(spec)
        cfg = "DOIT_CONFIG = {'dep_file': %r, 'backend': 'json', 'reporter': LogReporter, 'verbosity': 0%s}\n" % (
            os.path.join(d, 'db_sub_%d' % idx), '' if spec['default'] is None else ", 'default_tasks': %r" % (list(spec['default']),))
        with open(os.path.join(d, file_name), 'w') as fh:
            fh.write(PRELUDE + cfg + src)
        for sub in ('sub', 'out'):
            os.makedirs(os.path.join(d, sub), exist_ok=True)
        for t in list(spec['defs'].values()) + list(spec['dsubs'].values()):
            for f in t['file_dep'] + t['targets']:
                with open(os.path.join(d, f), 'w') as fh:
                    fh.write('x')
        log = os.path.join(d, 'events.log')
        if os.path.exists(log):
            os.remove(log)
        full = ([] if file_name == 'dodo.py' else ['-f', file_name]) + list(argv)
        try:
            p = subprocess.run([common.PY, '-m', 'doit'] + full, cwd=d, env=common.impl_env(), stdout=subprocess.PIPE,
                               stderr=subprocess.PIPE, text=True, timeout=120)
            rc, err = p.returncode, p.stderr
        except Exception as e:   # noqa
            rc, err = 98, 'Traceback %s' % e
        events = []
        if os.path.exists(log):
            events = [json.loads(l) for l in open(log) if l.strip()]
            os.remove(log)
        for f in (file_name, ):
            os.remove(os.path.join(d, f))
        return dict(rc=rc, log=[(k, v) for k, v in events if k in ('status', 'fail', 'runtime_error')],
                    executed=[v for k, v in events if k == 'executed'], created=[v for k, v in events if k == 'created'],
                    posval={v[0]: v[1] for k, v in events if k == 'posval'}, stderr=err[-400:], src=src,
                    traceback=('Traceback' in err or rc == 98))
    return run_sub


def value_positions(spec, argv, c12):
    """indices of argv the documented reading makes VALUES (of a task's valued option, of a pos_arg task): no names"""
    idx = [i for i, a in enumerate(argv) if not is_var(a)]
    toks = [argv[i] for i in idx]
    k = 1 if toks[:1] == ['run'] else 0
    while k < len(toks) and toks[k].startswith('-'):
        k += 1
    names, pos_of = toks[k:], idx[k:]
    defs, out, seen, i = spec['defs'], [], set(), 0
    while i < len(names):
        f = names[i]; i += 1
        if '*' in f:
            seen |= set(fnmatch.filter(spec['order'], f))
            continue
        if f not in defs or f in seen:
            continue
        seen.add(f)
        t = defs[f]
        toks_of = dict(c12.PARAM_TOK[x] for x in t.get('params', []))
        while i < len(names) and names[i].startswith('-') and names[i] in toks_of:
            if toks_of[names[i]] and i + 1 < len(names):
                out.append(pos_of[i + 1])
            i += 2 if toks_of[names[i]] else 1
        if t.get('pos_arg'):
            out += pos_of[i:]
            i = len(names)
    return out


def directed_c2(d, c12):
    T = c12.T

    def spec(blocks, defs, default=None):
        order = []
        for kind, nm, subs in blocks:
            order.append(nm)
            if kind == 'group':
                order += ['%s:%s' % (nm, x) for x in subs]
        return dict(dir=d, blocks=blocks, order=order, defs=defs, dsubs={}, default=default)
    abc = lambda default=None: spec([['plain', 'a', []], ['plain', 'b', []], ['plain', 'c', []], ['group', 'g', ['x']]],
                                    {'a': T(), 'b': T(targets=['out/b.txt']), 'c': T(task_dep=['a']), 'g': T('group', subs=['g:x']), 'g:x': T('sub')},
                                    default=default)
    lint = lambda: spec([['plain', 'lint', []], ['plain', 'build', []], ['plain', 'z', []]],
                        {'lint': T(pos_arg=True), 'build': T(params=['flag', 'val']), 'z': T()})
    return [
        # (label, spec, argv)
        ('name-then-empty', abc(['b']), ['a', '']),
        ('run-name-empty-name', abc(['b']), ['run', 'a', '', 'c']),
        ('empty-alone-default_tasks', abc(['b']), ['']),
        ('empty-alone-all', abc(), ['']),
        ('run-single-empty', abc(['b']), ['run', '--single', '']),
        ('empty-first', abc(), ['', 'a']),
        ('empty-before-run', abc(), ['', 'run', 'a']),
        ('blank', abc(['b']), [' ']),
        ('name-then-blank', abc(), ['c', ' ', 'b']),
        ('upper-case', abc(), ['A']),
        ('trailing-blank', abc(), ['a ']),
        ('trailing-newline-single', abc(), ['run', '-s', 'c', 'a\n']),
        ('target-trailing-blank', abc(), ['out/b.txt ']),
        ('target-upper-case', abc(), ['OUT/B.TXT']),
        ('subtask-case', abc(), ['g:x', 'G:x']),
        ('group-colon', abc(), ['g:']),
        ('glob-then-empty', abc(), ['*', '']),
        ('no-match-glob-then-empty', abc(), ['zz*', '']),
        ('variable-alone-default_tasks', abc(['b']), ['a=1']),
        ('variable-alone-all', abc(), ['a=1']),
        ('variable-before-run', abc(), ['x=1', 'run', 'c']),
        ('variables-everywhere', abc(), ['run', 'x=1', '-s', 'y=', 'c', '=z', 'b']),
        ('variable-and-empty', abc(['b']), ['a', 'a=1', '']),
        ('run-as-name', abc(), ['run', 'a', 'run']),
        ('default_tasks-with-empty', abc(['b', '']), []),
        ('default_tasks-with-equals-name', abc(['b', 'a=1']), []),
        ('only-variable-default_tasks-with-empty', abc(['', 'b']), ['x=1']),
        ('plain', abc(), ['c', 'b']),
        ('pos_arg-blank-value', lint(), ['lint', 'a.py', ' ']),
        ('pos_arg-empty-value', lint(), ['lint', 'a.py', '']),
        ('option-empty-value', lint(), ['build', '-v', '', 'z']),
        ('option-value-then-empty-name', lint(), ['build', '-v', 'x', '']),
    ]


def gen_c2(rng, d, c12):
    for _ in range(30):
        spec = c12.gen_b(rng, d)
        if not spec['dsubs'] and 'd' not in spec['defs']:
            break
    else:
        return None
    real = list(spec['order']) + [f for t in spec['defs'].values() for f in t['targets']]
    if spec['default'] is not None and rng.random() < 0.25:
        spec['default'] = list(spec['default'])
        spec['default'].insert(rng.randrange(0, len(spec['default']) + 1), rng.choice([degenerate(rng, real), variable(rng, real)]))
    positive = rng.random() < 0.35
    for _ in range(12):
        names = [] if rng.random() < 0.15 else [a for a in c12.random_selection(rng, spec) if a != '-z']
        if positive:     # only elements that select something, variables in between: every one must survive, in order
            pool = [x for x in spec['order'] if not spec['defs'][x].get('pos_arg')] + [f for t in spec['defs'].values() for f in t['targets']] + ['t*', 'zz*', 'g:*']
            names = [rng.choice(pool) for _ in range(rng.choice([1, 2, 2, 3, 4]))]
            argv, meta = build_argv(rng, names, real, n_deg=rng.choice([0, 0, 0, 1]), n_var=rng.choice([0, 1, 1, 2, 3]))
        else:
            argv, meta = build_argv(rng, names, real)
        rd = cli_reading(argv)
        if 'names' in rd and 'ambiguous' not in c12.split_selection(spec, rd['names']):
            return spec, argv, meta
    return None


def check_c(ctx, out, c12, spec, argv, meta, ci, kind, runner=None, label=None):
    rd = cli_reading(argv)
    count_argv(out, kind, argv, meta, rd)
    vp = value_positions(spec, argv, c12)
    shape = cli_shape(argv, value_positions=vp)
    if shape == 'c12:empty-string-argument-value':
        out.count(kind + ':empty-string-as-argument-value')
    if any(argv[i].strip() == '' and argv[i] for i in vp):
        out.count(kind + ':blank-as-argument-value')
    c12.check_b(ctx, out, spec, list(rd['names']), rd['single'], ci, label=label, auto=rd['auto'],
                cli=dict(argv=argv, shape=shape, runner=runner, kind=kind))


def part_c23(ctx, out, c12):
    rng = ctx.rng
    d = ctx.subdir('c2')
    for i, (label, spec, argv) in enumerate(directed_c2(d, c12)):
        meta = dict(explicit_run='run' in argv[:2], where=[], n_deg=0, n_var=0)
        check_c(ctx, out, c12, spec, argv, meta, 3000000 + i, 'C2', label=label)
    for ci in range(ctx.n(150, 1600)):
        g = gen_c2(rng, d, c12)
        if g is None:
            out.count('C2:not-generated')
            continue
        check_c(ctx, out, c12, g[0], g[1], g[2], 2000000 + ci, 'C2')
    # C3: the real command line in a sub-process
    d3 = ctx.subdir('c3')
    dir3 = directed_c2(d3, c12)
    pick = [x for x in dir3 if x[0] in ('name-then-empty', 'empty-alone-default_tasks', 'run-single-empty', 'variable-alone-default_tasks',
                                        'variables-everywhere', 'trailing-blank', 'plain')]
    for i, (label, spec, argv) in enumerate(pick):
        meta = dict(explicit_run='run' in argv[:2], where=[], n_deg=0, n_var=0)
        check_c(ctx, out, c12, spec, argv, meta, 5000000 + i, 'C3', runner=make_subprocess_runner(c12, 'dodo.py' if i % 2 else 'tasks_file.py'), label=label)
    for ci in range(ctx.n(8, 150)):
        g = gen_c2(rng, d3, c12)
        if g is None:
            continue
        check_c(ctx, out, c12, g[0], g[1], g[2], 4000000 + ci, 'C3', runner=make_subprocess_runner(c12, rng.choice(['dodo.py', 'tasks_file.py'])))


RULE = ('C: command lines around such selections with degenerate names (empty string, blanks, real names changed by case / leading / '
        'trailing characters, `run` out of place) at the first / a middle / the last position and alone, variables `x=y` anywhere, explicit '
        '`run` / default command, --single, default_tasks holding such names; C1 runner stubbed: model doit_main + oracle; C2 complete runs '
        'in-process, C3 through `python -m doit` in a sub-process; non-trivial = >= 3 tasks and at least one degenerate name or variable (C1), '
        'closure of >= 3 tasks or a rejected command line (C2, C3)')


def replay_c1(ctx, payload, c12):
    case = payload['case']
    full = dict(tasks=case['tasks'], argv=case['argv'], default=case.get('default'), defect=case.get('defect', 'none'))
    obs, raw = run_c1(ctx, full, c12.Intern(), 0, c12)
    print('tasks    :', [(t['name'], t['task_dep'] + t.get('post_dep', []), t['targets']) for t in case['tasks']])
    print('argv     :', case['argv'], ' default_tasks =', case.get('default'))
    print('reading  :', cli_reading(case['argv']))
    print('recorded :', payload.get('what'), case.get('observed'))
    print('now      : exit code %s, runner started %s time(s), selected %r' % (raw['rc'], raw['started'], raw['selected']))
    print('oracle   :', oracle_c1(full, raw) or 'ok')
    return 0
