"""C10, family 'delayed-proc': PICKLABLE instrumented actions.

A task created at run time by a `doit.create_after` creator is sent to a worker PROCESS as a whole pickled Task
(runner.JobTask: Task.__getstate__ / pickle.loads in the worker), statically known tasks only as their
`pickle_safe_dict` (runner.JobTaskPickle).  Everything the main process put on the Task object before the job is
handed out -- the getargs values in `task.options` (Runner._get_task_args), `dep_changed` computed by the status check,
`file_dep` extended by the calc_dep task -- therefore has to survive the pickling.  The instrumented closures of
harness/c10.py cannot be pickled (doit then stops with its documented InvalidTask error), so that family never ran
under `-n 2` processes.  The callables below are instances of module-level classes: pickled by reference to this module
(importable in the worker: it is forked from the check's process), carrying their configuration as plain data.

PyRec      python-action with a generated signature (the meta-arguments targets / dependencies / changed first, the
           getargs parameters last, each with the default NOT_DELIVERED -- like a user function `def f(targets, tok=None)`):
           appends {task, kw: the arguments it was called with, ret: what it returns} to the log file.  A getargs parameter
           that is not passed shows up as NOT_DELIVERED (judged in c10.Shadow.judge: shape c10:getargs-not-delivered).
Ret / Res  the value-returning and the result-returning action of c10.World.task_dict.
"""
import inspect, json

NOT_DELIVERED = '<getargs value not delivered: the parameter default was used>'


def _append(log, line):
    with open(log, 'a') as fh:
        fh.write(json.dumps(line) + '\n')


class PyRec(object):
    def __init__(self, log, name, params, ga_params, ret, failing, noval):
        self.log, self.name, self.ret, self.failing, self.noval = log, name, ret, failing, noval
        self.params = [p for p in params if p not in ga_params] + [p for p in params if p in ga_params]
        self.ga_params = list(ga_params)
        self.__name__ = 'rec_' + name.replace(':', '_')

    @property
    def __signature__(self):
        P = inspect.Parameter
        return inspect.Signature([P(p, P.POSITIONAL_OR_KEYWORD, default=(NOT_DELIVERED if p in self.ga_params else P.empty))
                                  for p in self.params])

    def __call__(self, *args, **kwargs):
        ba = self.__signature__.bind(*args, **kwargs)
        ba.apply_defaults()
        r = False if self.failing else (dict(self.ret) if self.ret else self.noval)
        _append(self.log, dict(task=self.name, kw=dict(ba.arguments), ret=r))
        return r


class Ret(object):
    def __init__(self, ret, failing):
        self.ret, self.failing = ret, failing
        self.__name__ = 'ret'

    def __call__(self):
        return False if self.failing else dict(self.ret)


class Res(object):
    def __init__(self, res):
        self.res = res
        self.__name__ = 'res'

    def __call__(self):
        return True if self.res is None else 'res%d' % self.res
