"""C19, reporter layer: the REAL reporters driven by the REAL runners through the real command line
(`python -m doit run --reporter {console,executed-only,zero,error-only,json}` as a sub-process, serial
runner, `-n 2 -P thread`, `-n 2` = processes) against coq/Model/Report.v composed with
Model/Runner.v / Parallel.v, plus an independent oracle that knows the truth of every generated
scenario (what each task does) and judges the observed process output on its own.

Scenario = a small dodo.py: 2-5 tasks, each one of
   ok / fail (action returns False) / error (action raises) / utd (up-to-date: `uptodate: [True]`, made
   up-to-date by a silent first run) / ignored (`doit ignore` before the run) / group (no actions) /
   failq, errorq (a python-action RETURNS the failure object TaskFailed(..., report=False) resp.
   TaskError(..., report=False): a failure the console-family reporters are asked not to print; always a
   python-action, also in scenarios that otherwise use cmd-actions),
with task_dep / setup edges to later tasks (every task is waited for by at most one other task, so that
no set-iteration order is an input), verbosity 0/1/2, actions printing a token on stdout and/or stderr,
teardown actions that print and/or fail, names that may be private (`_t3`); --continue on/off;
--failure-verbosity 0/1/2; optionally a dependency cycle (serial only).  All tasks are selected.

Observation = exit code + real stdout + real stderr of the process, parsed into the chunk codes of
Report.v (enc_chunk): tokens `[[n]]` -> 1e6+n*1000; console lines -> 10..21; with --reporter json the
document found on stdout -> 50 records 51 out 52 err 53 (enc_doc), chunks before/after it stay
outside.  Serial runs are compared in exact order; runs with a parallel runner as sorted bags (tasks of
the document by name): the arrival order is not an input of the case.  Cases under a parallel runner
without --continue that contain a failure are chains (nothing else in flight).

Encoding compared (enc_report): [60] stdout [61] stderr [62; reporter crashed] [-1; exit code].
"""
import concurrent.futures, json, os, re, subprocess, sys
import common

TOK_OUT, TOK_ERR, TOK_TDOUT, TOK_TDERR = 100, 200, 300, 400
QUIET = {'failq': 'fail', 'errorq': 'error'}      # kinds whose failure object carries report=False -> what they do
FAILING = ('fail', 'error', 'failq', 'errorq')
KINDS = {'TaskFailed': 0, 'TaskError': 1, 'UnmetDependency': 2, 'DependencyError': 3, 'SetupError': 4}
REPORTERS = {'console': 'RConsole', 'executed-only': 'RExecutedOnly', 'zero': 'RZero', 'error-only': 'RErrorOnly',
             'json': 'RJson'}
FLAVOURS = {'serial': [], 'thread': ['-n', '2', '-P', 'thread'], 'proc': ['-n', '2']}

PRE = ('From DoitV Require Import Base Dispatch Runner Parallel Report.\nOpen Scope N_scope.\n'
       'Definition FUEL : nat := N.to_nat 2000.\n')

DODO = r'''
import os, sys
PRE = os.environ.get('C19_PRE') == '1'
SPEC = @SPEC@
DOIT_CONFIG = {'default_tasks': @SELECTED@}
FMT = '[' + '[%d]' + ']\n'

def mk_action(t):
    def act():
        if t['out']:
            sys.stdout.write(FMT % t['out'])
        if t['err']:
            sys.stderr.write(FMT % t['err'])
        if t['kind'] == 'fail':
            return False
        if t['kind'] == 'error':
            raise Exception('the action of this task breaks')
        if t['kind'] == 'failq':
            from doit.exceptions import TaskFailed
            return TaskFailed('this task fails and asks not to be printed', report=False)
        if t['kind'] == 'errorq':
            from doit.exceptions import TaskError
            return TaskError('this task breaks and asks not to be printed', report=False)
        return True
    return act

def mk_teardown(t):
    def td():
        if t['td_out']:
            sys.stdout.write(FMT % t['td_out'])
        if t['td_err']:
            sys.stderr.write(FMT % t['td_err'])
        if t['td_fail']:
            raise Exception('the teardown of this task breaks')
    return td

def sh(out, err, code):
    # list form: no keyword expansion, and the command text (quoted in failure messages) contains no token
    script = ''
    if out:
        script += 'printf "[[%d]]\\n" ' + str(out) + '; '
    if err:
        script += 'printf "[[%d]]\\n" ' + str(err) + ' >&2; '
    return ['sh', '-c', script + 'exit ' + str(code)]

def task_gen():
    for t in SPEC:
        if t['kind'] == 'group':
            actions = []
        elif PRE:
            actions = [['true']]
        elif t['act'] == 'cmd':
            actions = [sh(t['out'], t['err'], {'fail': 1, 'error': 126}.get(t['kind'], 0))]
        else:
            actions = [mk_action(t)]
        d = {'basename': t['name'], 'actions': actions,
             'task_dep': t['task_dep'], 'setup': t['setup'], 'verbosity': t['verbosity']}
        if t['kind'] == 'utd':
            d['uptodate'] = [True]
        if t['td'] and not PRE:
            d['teardown'] = [sh(t['td_out'], t['td_err'], 1 if t['td_fail'] else 0) if t['act'] == 'cmd' else mk_teardown(t)]
        yield d
'''


# ------------------------------------------------------------------ scenarios
def tname(i, private):
    return ('_t%d' if private else 't%d') % i


def gen_scenario(rng, flavour=None, reporter=None):
    n = rng.choice([2, 3, 3, 4, 4, 5])
    flavour = flavour or rng.choice(['serial', 'serial', 'thread', 'proc'])
    reporter = reporter or rng.choice(['json', 'json', 'json', 'console', 'console', 'executed-only', 'zero', 'error-only'])
    cont = rng.random() < 0.6
    tasks = []
    for i in range(n):
        kind = rng.choices(['ok', 'fail', 'error', 'utd', 'ignored', 'group', 'failq', 'errorq'], weights=[10, 4, 3, 3, 2, 1, 2, 2])[0]
        td = rng.random() < 0.45
        tasks.append(dict(kind=kind, private=rng.random() < 0.12, verbosity=rng.choice([0, 1, 2, 2]),
                          out=rng.random() < 0.7, err=rng.random() < 0.6, task_dep=[], setup=[],
                          td=td, td_out=td and rng.random() < 0.7, td_err=td and rng.random() < 0.6,
                          td_fail=td and rng.random() < 0.35))
    # edges to later tasks; every task is the dependency of at most one task
    free = list(range(1, n))
    rng.shuffle(free)
    for d in free:
        if rng.random() < 0.55:
            src = rng.randrange(0, d)
            if tasks[src]['kind'] != 'group' and rng.random() < 0.25:
                tasks[src]['setup'].append(d)
            else:
                tasks[src]['task_dep'].append(d)
    sc = dict(n=n, tasks=tasks, cont=cont, flavour=flavour, reporter=reporter,
              fv=rng.choice([0, 0, 0, 1, 2]), cycle=False, selected=list(range(n)), act=rng.choice(['py', 'py', 'cmd']))
    if rng.random() < 0.3:
        rng.shuffle(sc['selected'])
    if flavour == 'serial' and rng.random() < 0.06 and n >= 3:
        # a dependency cycle between the last two tasks
        sc['cycle'] = True
        for t in tasks:
            t['task_dep'] = [x for x in t['task_dep'] if x < n - 2]
            t['setup'] = [x for x in t['setup'] if x < n - 2]
        tasks[n - 2]['task_dep'] = [n - 1]
        tasks[n - 1]['task_dep'] = [n - 2]
        sc['selected'] = list(range(n))
        sc['cont'] = True          # the cycle is reached whatever fails before it
        for t in tasks:
            if t['kind'] == 'utd':
                t['kind'] = 'ok'
    normalise(sc)
    return sc


def chain(sc):
    n = sc['n']
    for i, t in enumerate(sc['tasks']):
        t['setup'] = []
        t['task_dep'] = [i + 1] if i + 1 < n else []
    sc['selected'] = list(range(n))


def normalise(sc):
    """keep the observable of a parallel run independent of the schedule (see module doc)"""
    fails = any(t['kind'] in FAILING for t in sc['tasks'])
    if sc['flavour'] != 'serial' and not sc['cont'] and fails:
        chain(sc)
    if sc['flavour'] == 'thread':
        # python-actions running in two threads at once capture each other's output (known finding of C17,
        # thread-overlap-python-actions): the thread runner is driven with cmd-actions only ...
        sc['act'] = 'cmd'
        # ... except for the tasks that must return a failure OBJECT (python-action): then nothing runs next to them
        if any(t['kind'] in QUIET for t in sc['tasks']):
            chain(sc)
    for t in sc['tasks']:
        if not t['td']:
            t['td_out'] = t['td_err'] = t['td_fail'] = False


def family():
    """systematic cases: every reporter x every runner on three fixed scenarios"""
    def T(kind, **kw):
        d = dict(kind=kind, private=False, verbosity=2, out=True, err=True, task_dep=[], setup=[], td=False,
                 td_out=False, td_err=False, td_fail=False)
        d.update(kw)
        return d
    base = [
        # success + noisy teardown, failure + failing teardown, unmet dependency, error, up-to-date, ignored
        dict(tasks=[T('ok', td=True, td_out=True, td_err=True), T('fail', verbosity=1, td=True, td_err=True, td_fail=True),
                    T('ok', verbosity=0, task_dep=[1]), T('error', verbosity=0), T('utd'), T('ignored')], cont=True),
        # everything fine, verbosity 0/1/2, private and group tasks, setup edge
        dict(tasks=[T('ok', verbosity=0, setup=[3], td=True, td_out=True), T('ok', verbosity=1, private=True),
                    T('group', task_dep=[1]), T('ok', td=True, td_err=True)], cont=False),
        # first failure stops the run (chain)
        dict(tasks=[T('ok', task_dep=[1]), T('fail', task_dep=[2], td=True, td_out=True, td_err=True), T('ok', td=True, td_out=True)], cont=False),
        # failures that carry report=False (TaskFailed / TaskError objects returned by python-actions) next to ordinary
        # ones and to the unmet dependency they cause, --continue (chained under the thread runner: the last task runs first)
        dict(tasks=[T('ok', td=True, td_out=True), T('fail', verbosity=0), T('ok', task_dep=[3]), T('errorq', verbosity=0),
                    T('ok', verbosity=1), T('failq', verbosity=1, td=True, td_err=True)], cont=True),
        # ... and such a failure cutting the run short (chain)
        dict(tasks=[T('ok', task_dep=[1]), T('errorq', task_dep=[2], td=True, td_out=True), T('ok', td=True, td_out=True)], cont=False),
        dict(tasks=[T('ok', task_dep=[1]), T('failq', verbosity=0)], cont=False),
    ]
    # dependency cycles, the two ways the dispatcher finds one: on one ancestor chain (_gen_node) and as nodes that
    # all wait for each other with nothing executing ("hold on" / cyclic_hold_error); a task that runs before
    # runs first is only put in front under the serial runner (under a parallel runner what it has reported by the
    # time the error is raised depends on the schedule)
    cyc = [
        dict(tasks=[T('ok', td=True, td_out=True), T('ok', task_dep=[2]), T('ok', task_dep=[1])], cont=True, cycle=True, serial_only=True),
        dict(tasks=[T('ok', td=True, td_out=True), T('ok', task_dep=[2, 3]), T('ok', task_dep=[3]), T('ok', task_dep=[2])],
             cont=True, cycle=True, serial_only=True),
        dict(tasks=[T('ok', task_dep=[1]), T('ok', task_dep=[0])], cont=True, cycle=True),
        dict(tasks=[T('ok', task_dep=[1, 2]), T('ok', task_dep=[2]), T('ok', task_dep=[1])], cont=True, cycle=True),
        dict(tasks=[T('ok', task_dep=[1, 2]), T('ok', setup=[2]), T('ok', task_dep=[1])], cont=False, cycle=True),
    ]
    out = []
    for b in base + cyc:
        for rep in REPORTERS:
            for fl in FLAVOURS:
                if b.get('serial_only') and fl != 'serial':
                    continue
                sc = dict(n=len(b['tasks']), tasks=[dict(t, task_dep=list(t['task_dep']), setup=list(t['setup'])) for t in b['tasks']],
                          cont=b['cont'], flavour=fl, reporter=rep, fv=0, cycle=b.get('cycle', False),
                          selected=list(range(len(b['tasks']))), act='py')
                normalise(sc)
                out.append(sc)
    return out


def spec_of(sc):
    spec = []
    for i, t in enumerate(sc['tasks']):
        spec.append(dict(name=tname(i, t['private']), kind=t['kind'], verbosity=t['verbosity'],
                         act='py' if t['kind'] in QUIET else sc['act'],
                         out=(TOK_OUT + i) if t['out'] and t['kind'] != 'group' else 0,
                         err=(TOK_ERR + i) if t['err'] and t['kind'] != 'group' else 0,
                         task_dep=[tname(j, sc['tasks'][j]['private']) for j in t['task_dep']],
                         setup=[tname(j, sc['tasks'][j]['private']) for j in t['setup']],
                         td=t['td'], td_out=(TOK_TDOUT + i) if t['td_out'] else 0, td_err=(TOK_TDERR + i) if t['td_err'] else 0,
                         td_fail=t['td_fail']))
    return spec


# ------------------------------------------------------------------ running the real thing
def doit(args, cwd, pre=False):
    env = common.impl_env()
    env['PYTHONDONTWRITEBYTECODE'] = '1'
    if pre:
        env['C19_PRE'] = '1'
    else:
        env.pop('C19_PRE', None)
    try:
        p = subprocess.run([common.PY, '-m', 'doit'] + args, cwd=cwd, env=env, timeout=120,
                           stdout=subprocess.PIPE, stderr=subprocess.PIPE, text=True)
        return p.returncode, p.stdout, p.stderr
    except subprocess.TimeoutExpired as e:
        return 98, (e.stdout or b'').decode() if isinstance(e.stdout, bytes) else (e.stdout or ''), 'TIMEOUT'


def run_real(sc, d):
    spec = spec_of(sc)
    names = [s['name'] for s in spec]
    with open(os.path.join(d, 'dodo.py'), 'w') as f:
        f.write(DODO.replace('@SPEC@', repr(spec)).replace('@SELECTED@', repr([names[i] for i in sc['selected']])))
    utd = [names[i] for i, t in enumerate(sc['tasks']) if t['kind'] == 'utd']
    ign = [names[i] for i, t in enumerate(sc['tasks']) if t['kind'] == 'ignored']
    if utd and not sc['cycle']:
        rc, o, e = doit(['run', '--reporter', 'zero'] + utd, d, pre=True)
        if rc != 0:
            return dict(rc=97, stdout=o, stderr='PRE-RUN FAILED rc=%s: %s' % (rc, e))
    elif utd:
        return dict(rc=97, stdout='', stderr='generator: utd with cycle')
    if ign:
        rc, o, e = doit(['ignore'] + ign, d, pre=True)
        if rc != 0:
            return dict(rc=97, stdout=o, stderr='IGNORE FAILED rc=%s: %s' % (rc, e))
    args = ['run', '--reporter', sc['reporter']] + (['--continue'] if sc['cont'] else []) + FLAVOURS[sc['flavour']]
    if sc['fv']:
        args += ['--failure-verbosity', str(sc['fv'])]
    rc, o, e = doit(args, d)
    return dict(rc=rc, stdout=o, stderr=e)


# ------------------------------------------------------------------ parsing the output
def pack(c, a=0, b=0):
    return c * 1000000 + a * 1000 + b


NAME = r'(_?t(\d+))'
RX = [
    (re.compile(r'^\.  ' + NAME + r'$'), lambda m, st: pack(10, int(m.group(2)))),
    (re.compile(r'^-- ' + NAME + r'$'), lambda m, st: pack(11, int(m.group(2)))),
    (re.compile(r'^!! ' + NAME + r'$'), lambda m, st: pack(12, int(m.group(2)))),
    (re.compile(r'^(\w+) - taskid:' + NAME + r'$'),
     lambda m, st: pack(16 if st['summary'] else 13, int(m.group(3)), KINDS.get(m.group(1), 9))),
    (re.compile(r'^taskid:' + NAME + r' - (\w+)$'), lambda m, st: pack(14, int(m.group(2)), KINDS.get(m.group(3), 9))),
    (re.compile(r'^' + NAME + r' <stderr>:$'), lambda m, st: pack(17, int(m.group(2)))),
    (re.compile(r'^' + NAME + r' <stdout>:$'), lambda m, st: pack(18, int(m.group(2)))),
    (re.compile(r'^Execution aborted\.$'), lambda m, st: pack(19)),
    (re.compile(r"^ERROR: task '" + NAME + r"' teardown action"), lambda m, st: pack(21, int(m.group(2)))),
]
RX_TOK = re.compile(r'\[\[(\d+)\]\]')
RX_SEP = re.compile(r'^#{40}$')
RX_CRASH = re.compile(r'File ".*doit_cmd\.py", line \d+, in run\b')
RX_ERROR = re.compile(r'^ERROR: ')


def parse_text(text):
    """text written by reporters / actions / doit -> list of chunk codes (message bodies are dropped)"""
    out, st = [], dict(summary=False, crash=False)
    for line in text.split('\n'):
        if RX_SEP.match(line):
            st['summary'] = True
            out.append(pack(15))
            continue
        hit = False
        for rx, f in RX:
            m = rx.match(line)
            if m:
                out.append(f(m, st)); hit = True
                break
        if hit:
            continue
        toks = RX_TOK.findall(line)
        if toks:
            out += [pack(1, int(t)) for t in toks]
        elif RX_CRASH.search(line) and not st['crash']:
            st['crash'] = True
            out.append(pack(1, 2))           # tok_crash
        elif RX_ERROR.match(line):
            out.append(pack(1, 0))           # tok_error
    return out


RES = {None: 0, 'success': 1, 'fail': 2, 'up-to-date': 3, 'ignore': 4}


def split_json(stdout):
    """(prefix, doc or None, suffix, whole_is_one_document)"""
    try:
        return '', json.loads(stdout), '', True
    except ValueError:
        pass
    dec = json.JSONDecoder()
    pos = stdout.find('{"tasks"')
    while pos != -1:
        try:
            doc, end = dec.raw_decode(stdout, pos)
            return stdout[:pos], doc, stdout[end:], False
        except ValueError:
            pos = stdout.find('{"tasks"', pos + 1)
    return stdout, None, '', False


def tokens(s):
    return [int(t) for t in RX_TOK.findall(s or '')]


def enc_doc(doc, canon):
    recs = []
    for r in doc.get('tasks', []):
        m = re.match(NAME + '$', str(r.get('name')))
        recs.append((int(m.group(2)) if m else 999, r))
    if canon:
        recs.sort(key=lambda x: x[0])
    out = [50]
    for i, r in recs:
        o, e = tokens(r.get('out')), tokens(r.get('err'))
        out += [30, i, RES.get(r.get('result'), 9), 1 if r.get('started') is not None else 0,
                1 if r.get('error') is not None else 0, len(o)] + o + [len(e)] + e
    o, e = parse_text(doc.get('out') or ''), parse_text(doc.get('err') or '')
    if canon:
        o, e = sorted(o), sorted(e)
    return out + [51] + o + [52] + e + [53]


def encode(sc, res):
    """the observation in the encoding of Report.enc_report; also returns the parsed pieces for the oracle"""
    canon = sc['flavour'] != 'serial'
    info = dict(doc=None, single=None, out_chunks=None, err_chunks=parse_text(res['stderr']))
    if sc['reporter'] == 'json':
        pre, doc, suf, single = split_json(res['stdout'])
        info.update(doc=doc, single=single)
        outside = parse_text(pre) + parse_text(suf)
        info['out_chunks'] = outside
        if doc is None:
            so = sorted(outside) if canon else outside
        elif canon:
            so = sorted(outside) + enc_doc(doc, True)
        else:
            so = parse_text(pre) + enc_doc(doc, False) + parse_text(suf)
    else:
        info['out_chunks'] = parse_text(res['stdout'])
        so = sorted(info['out_chunks']) if canon else info['out_chunks']
    se = sorted(info['err_chunks']) if canon else info['err_chunks']
    return [60] + so + [61] + se + [62, 0, -1, res['rc']], info


# ------------------------------------------------------------------ the model side
def coq_case(sc, idx):
    b = lambda x: 'true' if x else 'false'
    nl = lambda xs: '[' + '; '.join(str(x) for x in xs) + ']'
    tb, ti = [], []
    for i, t in enumerate(sc['tasks']):
        check = 'CkUpToDate' if t['kind'] == 'utd' else 'CkRun'
        outc = {'fail': 'OFail', 'error': 'OError', 'failq': 'OFail', 'errorq': 'OError'}.get(t['kind'], 'OOk')
        tb.append('| %d => Some (Build_task %s %s [] %s %s %s false %s [] [] [])' % (
            i, nl(t['task_dep']), nl(t['setup']), b(t['td']), b(t['kind'] == 'ignored'), check, outc))
        has_out = t['out'] and t['kind'] != 'group'
        has_err = t['err'] and t['kind'] != 'group'
        ti.append('| %d => Build_tattr %s %s %d %s %s %s %s %s %s' % (
            i, b(t['kind'] != 'group'), b(t['private']), t['verbosity'],
            nl([TOK_OUT + i] if has_out else []), nl([TOK_ERR + i] if has_err else []),
            nl([TOK_TDOUT + i] if t['td_out'] else []), nl([TOK_TDERR + i] if t['td_err'] else []), b(t['td_fail']), b(t['kind'] not in QUIET)))
    defs = ('Definition rtb%d (n : name) : option task := match n with %s | _ => None end.\n'
            'Definition rti%d (n : name) : tattr := match n with %s | _ => Build_tattr false false 0 [] [] [] [] false true end.'
            % (idx, ' '.join(tb), idx, ' '.join(ti)))
    common_args = 'rtb%d (fun _ _ => 0) (fun _ => 0) %s false' % (idx, b(sc['cont']))
    tail = '%s rti%d %s %d' % (nl(sc['selected']), idx, REPORTERS[sc['reporter']], sc['fv'])
    if sc['flavour'] == 'serial':
        expr = 'enc_report false (report_serial %s FUEL %s)' % (common_args, tail)
    else:
        expr = 'enc_report true (report_parallel %s %s FUEL 2%%nat []%%list %s)' % (common_args, b(sc['flavour'] == 'proc'), tail)
    return defs, expr


# ------------------------------------------------------------------ the independent oracle
def truth(sc):
    """what happens to every task when it is processed: (result, executed, failure kind)"""
    memo = {}

    def f(i, seen=()):
        if i in memo:
            return memo[i]
        if i in seen:
            return ('cycle', False, None)
        t = sc['tasks'][i]
        td = [f(j, seen + (i,))[0] for j in t['task_dep']]
        if 'cycle' in td:
            r = ('cycle', False, None)
        elif t['kind'] == 'ignored' or 'ignore' in td:
            r = ('ignore', False, None)
        elif 'fail' in td:
            r = ('fail', False, 2)
        elif t['kind'] == 'utd':
            r = ('up-to-date', False, None)
        else:
            sd = [f(j, seen + (i,))[0] for j in t['setup']]
            if 'ignore' in sd:
                r = ('ignore', False, None)
            elif 'fail' in sd:
                r = ('fail', False, 2)
            elif t['kind'] in ('fail', 'failq'):
                r = ('fail', True, 0)
            elif t['kind'] in ('error', 'errorq'):
                r = ('fail', True, 1)
            else:
                r = ('success', True, None)
        memo[i] = r
        return r
    return {i: f(i) for i in range(sc['n'])}


def oracle(sc, res, info):
    """violations of C19 visible in the output of this run: list of (shape, sentence)"""
    bad = []
    tr = truth(sc)
    n, rc, rep, fl = sc['n'], res['rc'], sc['reporter'], sc['flavour']
    names = {tname(i, t['private']): i for i, t in enumerate(sc['tasks'])}
    if rc in (97, 98):
        return [('harness-run-failed', 'scenario could not be run: rc=%s %s' % (rc, res['stderr'][-300:]))]
    executed_td_fail = [i for i, t in enumerate(sc['tasks']) if t['td_fail'] and tr[i][1]]
    if fl == 'proc' and executed_td_fail and (rc == 3 or pack(1, 2) in info['err_chunks']):
        return [('proc-teardown-error-crash',
                 'process runner: the teardown of task %d fails -> MReporter.cleanup_error(exception) does `task.name` on the '
                 'exception, the worker dies, the main process fails on `assert \'reporter\' in result`: traceback on stderr, '
                 'exit code %d, the teardown error is reported nowhere' % (executed_td_fail[0], rc))]
    any_fail = any(r[0] == 'fail' for r in tr.values())
    complete = (sc['cont'] or not any_fail) and not sc['cycle']
    # the task's own failure carries report=False (an unmet dependency of the same task is an ordinary failure)
    quiet = {i: (sc['tasks'][i]['kind'] in QUIET and tr[i][1]) for i in range(n)}

    if rep == 'json':
        doc = info['doc']
        if not info['single']:
            bad.append(('json-not-single-document', 'stdout of --reporter json is not exactly one JSON document: %r' % res['stdout'][-200:]))
        allowed_err = sc['cycle'] and rc == 3 and info['err_chunks'] == [pack(1, 0)]
        if res['stderr'] != '' and not allowed_err:
            bad.append(('json-output-outside-document', 'output outside the JSON document, stderr = %r' % res['stderr'][-300:]))
        if info['out_chunks']:
            bad.append(('json-output-outside-document', 'output outside the JSON document on stdout, chunks %s' % info['out_chunks']))
        if doc is not None:
            seen = {}
            for r in doc.get('tasks', []):
                i = names.get(r.get('name'))
                if i is None:
                    bad.append(('json-task-listed-twice-or-missing', 'document lists unknown task %r' % r.get('name')))
                    continue
                seen[i] = seen.get(i, 0) + 1
                want, exe, kind = tr[i]
                # no model, no run structure: its actions were started and they do not succeed -> it failed, and that
                # is what the document has to say (whatever the failure object asks the console reporters to print)
                if r.get('started') is not None and sc['tasks'][i]['kind'] in FAILING and r.get('result') != 'fail':
                    bad.append(('json-task-result-wrong', 'the actions of task %d (%s) were started and did not succeed, but it is '
                                'listed with result %r' % (i, sc['tasks'][i]['kind'], r.get('result'))))
                    continue
                if r.get('result') is None:
                    if complete:
                        bad.append(('json-task-result-wrong', 'task %d listed without a result in a run that was not cut short' % i))
                    continue
                if r['result'] != want:
                    bad.append(('json-task-result-wrong', 'task %d listed as %r, what happened is %r' % (i, r['result'], want)))
                if (r.get('started') is not None) != exe or (r.get('elapsed') is not None) != exe:
                    bad.append(('json-task-result-wrong', 'task %d: started=%r elapsed=%r but its actions were %sexecuted'
                                % (i, r.get('started'), r.get('elapsed'), '' if exe else 'not ')))
                t = sc['tasks'][i]
                wo = [TOK_OUT + i] if (exe and t['out'] and t['kind'] != 'group') else []
                we = [TOK_ERR + i] if (exe and t['err'] and t['kind'] != 'group') else []
                if tokens(r.get('out')) != wo or tokens(r.get('err')) != we:
                    bad.append(('json-task-result-wrong', 'task %d: captured out/err %s/%s, its actions wrote %s/%s'
                                % (i, tokens(r.get('out')), tokens(r.get('err')), wo, we)))
                if (r.get('error') is not None) != (want == 'fail'):
                    bad.append(('json-task-result-wrong', 'task %d: error field %r for result %r' % (i, r.get('error'), want)))
            if any(c > 1 for c in seen.values()):
                bad.append(('json-task-listed-twice-or-missing', 'a task is listed more than once: %s' % seen))
            if complete and sorted(seen) != list(range(n)):
                bad.append(('json-task-listed-twice-or-missing', 'tasks listed %s, processed %s' % (sorted(seen), list(range(n)))))
            if not complete and not sc['cycle'] and not any(r.get('result') == 'fail' for r in doc.get('tasks', [])):
                bad.append(('json-task-listed-twice-or-missing', 'run without --continue was cut short but no failure is listed'))
            listed_fail = [tr[names[r['name']]][2] for r in doc.get('tasks', []) if r.get('name') in names and r.get('result') == 'fail']
            want_rc = 3 if sc['cycle'] else (0 if not listed_fail else (1 if all(k == 0 for k in listed_fail) else 2))
            if rc != want_rc:
                bad.append(('exit-code', 'exit code %d, the failures listed in the document (kinds %s) mean %d' % (rc, listed_fail, want_rc)))
            # what teardowns wrote / how they failed is part of the run: inside the document
            # (process runner: written in the child, see C19_json_worker_output_lost_refuted -- not judged here)
            if rc in (0, 1, 2):
                started = [names[r['name']] for r in doc.get('tasks', []) if r.get('name') in names and r.get('started') is not None]
                dout, derr = parse_text(doc.get('out') or ''), parse_text(doc.get('err') or '')
                for i in started:
                    t = sc['tasks'][i]
                    if fl != 'proc' and t['td_out'] and t['verbosity'] >= 2 and pack(1, TOK_TDOUT + i) not in dout:
                        bad.append(('json-output-not-in-document', 'stdout of the teardown of task %d is not in the document' % i))
                    if fl != 'proc' and t['td_err'] and t['verbosity'] >= 1 and pack(1, TOK_TDERR + i) not in derr:
                        bad.append(('json-output-not-in-document', 'stderr of the teardown of task %d is not in the document' % i))
                    if t['td_fail'] and pack(21, i) not in derr:
                        bad.append(('json-output-not-in-document', 'the error of the teardown of task %d is not in the document' % i))
    else:
        ch = info['out_chunks']
        if rep == 'zero' and [c for c in ch if c // 1000000 >= 10]:
            bad.append(('console-zero-reporter-wrote', 'ZeroReporter wrote result lines: %s' % ch))
        cnt = {}
        for c in ch:
            cnt[c] = cnt.get(c, 0) + 1
        processed_all = complete and rc in (0, 1, 2)
        for i, t in enumerate(sc['tasks']):
            want, exe, kind = tr[i]
            shown = {
                10: rep in ('console', 'executed-only') and exe and t['kind'] != 'group' and not t['private'],
                11: rep == 'console' and want == 'up-to-date' and not t['private'],
                12: rep == 'console' and want == 'ignore',
            }
            for code, cond in shown.items():
                c = cnt.get(pack(code, i), 0)
                if c > 1 or (c == 1 and not cond) or (c == 0 and cond and processed_all):
                    bad.append(('console-result-line-count', 'reporter %s printed %d line(s) of kind %d for task %d (%s, executed=%s)'
                                % (rep, c, code, i, want, exe)))
            fcode = {'console': 13, 'executed-only': 13, 'error-only': 14}.get(rep)
            got = sum(v for c, v in cnt.items() if c // 1000 in ([pack(13, i) // 1000, pack(14, i) // 1000]))
            wantn = 1 if (fcode and want == 'fail' and not quiet[i]) else 0      # report=False: no failure report at all
            if got > 1 or (got == 1 and not wantn) or (got == 0 and wantn and processed_all):
                bad.append(('console-result-line-count', 'reporter %s printed %d failure report(s) for task %d (%s)' % (rep, got, i, want)))
            if got == 1 and wantn and cnt.get(pack(fcode, i, kind), 0) != 1:
                bad.append(('console-result-line-count', 'reporter %s reported the failure of task %d with a wrong kind (expected %d)' % (rep, i, kind)))
        if rc in (0, 1, 2) and not sc['cycle']:
            kinds = [c % 1000 for c in ch if c // 1000000 in (13, 14)]
            if rep in ('console', 'executed-only', 'error-only'):
                # failures that are not printed (report=False) count all the same.  Which of them happened: all of them in
                # a run that was not cut short; in a run cut short exactly one failure happened -- the printed one, else
                # one of the quiet ones
                qk = [tr[i][2] for i in range(n) if quiet[i]]
                code = lambda ks: 0 if not ks else (1 if all(k == 0 for k in ks) else 2)
                if complete:
                    want_rcs = {code(kinds + qk)}
                elif kinds or not qk:
                    want_rcs = {code(kinds)}
                else:
                    want_rcs = {code([k]) for k in qk}
                if rc not in want_rcs:
                    bad.append(('exit-code', 'exit code %d, failures reported on the console (kinds %s) and failures not to be '
                                'printed (kinds %s) mean %s' % (rc, kinds, qk, sorted(want_rcs))))
        if sc['cycle'] and rc != 3:
            bad.append(('exit-code', 'dependency cycle but exit code %d' % rc))
    return bad


# ------------------------------------------------------------------ entry points
def describe(sc, res=None):
    d = dict(tasks=[dict(t, name=tname(i, t['private'])) for i, t in enumerate(sc['tasks'])], selected=sc['selected'],
             cont=sc['cont'], flavour=sc['flavour'], reporter=sc['reporter'], failure_verbosity=sc['fv'], cycle=sc['cycle'],
             act=sc['act'], part='reporters')
    if res is not None:
        d.update(exit=res['rc'], stdout=res['stdout'][-1500:], stderr=res['stderr'][-1500:])
    return d


def run_all(ctx, scenarios):
    root = ctx.subdir('rep')

    def one(args):
        i, sc = args
        d = os.path.join(root, 'c%d' % i)
        os.makedirs(d, exist_ok=True)
        try:
            return run_real(sc, d)
        except Exception as e:      # a broken implementation must show up as an observation
            return dict(rc=98, stdout='', stderr='HARNESS EXCEPTION %r' % e)
    with concurrent.futures.ThreadPoolExecutor(max_workers=max(2, min(common.NCPU - 2, 12))) as ex:
        return list(ex.map(one, list(enumerate(scenarios))))


def part_reporters(ctx, out):
    scenarios = family() + [gen_scenario(ctx.rng) for _ in range(ctx.n(150, 2400))]
    results = run_all(ctx, scenarios)
    cases = []
    for idx, (sc, res) in enumerate(zip(scenarios, results)):
        expected, info = encode(sc, res)
        defs, expr = coq_case(sc, idx)
        cases.append(dict(model=expr, expected=expected, defs=defs, sc=sc, res=res))
        out.count('rep:%s:%s:rc%s' % (sc['reporter'], sc['flavour'], res['rc']))
        tr_sc = truth(sc)
        if any(t['kind'] in QUIET and tr_sc[i][1] for i, t in enumerate(sc['tasks'])):
            out.count('rep:failure-with-report-false:%s:%s' % (sc['reporter'], sc['flavour']))
        if len(expected) >= 12:
            out.nontrivial.add(('rep', sc['reporter'], sc['flavour'], tuple(expected)))
        seen = set()
        for shape, what in oracle(sc, res, info):
            if shape in seen:
                continue
            seen.add(shape)
            out.violations.append(dict(what='%s (--reporter %s, %s runner)' % (what, sc['reporter'], sc['flavour']),
                                       shape='c19:' + shape, case=describe(sc, res)))
        if sc['flavour'] == 'proc' and sc['reporter'] == 'json' and res['rc'] in (0, 1, 2) and info['doc'] is not None:
            tr = truth(sc)
            lost = [i for i, t in enumerate(sc['tasks']) if tr[i][1] and ((t['td_out'] and t['verbosity'] >= 2) or (t['td_err'] and t['verbosity'] >= 1))]
            if lost:
                out.count('observed:proc-json-teardown-output-lost')
    bad = common.compare_with_model(ctx, PRE, cases, tag='rep')
    for i, m in bad:
        c = cases[i]
        out.mismatches.append(dict(case=describe(c['sc'], c['res']), impl=c['expected'], model=m))
    out.evaluations += len(cases)
    out.traces_validated += len(cases)
    if cases:
        out.samples.append(describe(cases[0]['sc'], cases[0]['res']))
    out.extra['reporter_layer_cases'] = len(cases)
    out.extra.setdefault('trusted_base', []).append(
        'harness/c19_reporters.py: output parser (console lines / tokens / JSON document -> chunk codes) and the scenario truth function of its oracle')
    out.assumptions = list(out.assumptions) + [
        'reporter layer: runs under the real parallel runners are compared as sorted bags (arrival order is not controlled); '
        'parallel cases without --continue that contain a failure are chains',
        'reporter layer: console message bodies / tracebacks / timestamps are not compared (abstracted in Model/Report.v)']
    out.rule += (' || reporter layer (c19_reporters.py): 2-5 task scenarios (ok/fail/error/up-to-date/ignored/group/failure objects with report=False, task_dep + setup, verbosity 0-2, '
                 'printing actions, printing/failing teardowns, private names, --continue, --failure-verbosity, cycle) x 5 built-in reporters x '
                 '{serial, -n 2 -P thread, -n 2} through `python -m doit run`; non-trivial = distinct observation with >= 12 codes')
    return out


def replay(ctx, payload):
    """re-run the scenario of a violation written by this part"""
    case = payload.get('case', {})
    sc = dict(n=len(case['tasks']), tasks=[{k: v for k, v in t.items() if k != 'name'} for t in case['tasks']],
              selected=case['selected'], cont=case['cont'], flavour=case['flavour'], reporter=case['reporter'],
              fv=case.get('failure_verbosity', 0), cycle=case.get('cycle', False), act=case.get('act', 'py'))
    res = run_all(ctx, [sc])[0]
    expected, info = encode(sc, res)
    print('exit code', res['rc'])
    print('--- stdout\n' + res['stdout'])
    print('--- stderr\n' + res['stderr'])
    bad = oracle(sc, res, info)
    for shape, what in bad:
        print('VIOLATION-SHAPE c19:%s: %s' % (shape, what))
    return 1 if bad else 0
