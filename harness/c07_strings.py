"""C07, the STRING dimension: which python strings are used as task ids, as record keys and inside stored values.

The property speaks about a map  task -> {key -> JSON value}  with "unicode names" and values that "round-trip
unchanged".  What the strings are is a dimension of its own: a backend (or the codec under it) may escape, encode,
normalise or reject text.  This module generates the tables of a case class by class; harness/c07.py runs them.

Domain (stated, not guessed from the code):
  * a task id is any string of Unicode scalar values (so: encodable in UTF-8), including '', control characters
    (NUL), non-BMP, non-characters, unnormalised (NFD) text, BOM;
  * a record key and a string inside a stored value is any string python itself hands to a program for a file name:
    bytes.decode('utf-8', 'surrogateescape') = os.fsdecode on a UTF-8 system, i.e. scalar values plus LONE LOW
    surrogates U+DC80..U+DCFF for the bytes that are not valid UTF-8 (doit stores file_dep paths as keys and target /
    dependency paths inside values).  JSON text can carry them (\\udcxx); high surrogates never come out of
    os.fsdecode and a high+low pair written as two code points is not distinguishable from one non-BMP character in
    JSON, so they are left out.
  Task ids with lone surrogates are NOT in the domain (they cannot be encoded in UTF-8, the property says "unicode
  ids"); c07.py probes them once and records what each backend does in the evidence (out.extra), without judging.

Two strings that differ are different keys of the map: the tables deliberately put look-alikes side by side
(NFC / NFD, the text '\\u00e9' / the character, 'caf\\udce9' / 'caf\\xe9' / 'caf\\ufffd', trailing NUL or blank, case,
compatibility forms), so that a backend that normalises, truncates or replaces is seen to merge two entries.
"""

CLASSES = ('ascii', 'latin1', 'bmp', 'astral', 'combining', 'control', 'separator', 'nonchar', 'jsonmeta', 'empty',
           'long', 'surrogateescape')
TASK_CLASSES = tuple(c for c in CLASSES if c != 'surrogateescape')

_ALNUM = 'abcdefghijklmnopqrstuvwxyzABCDEFGHIJKLMNOPQRSTUVWXYZ0123456789_-./: '
_BMP = 'жълтèñ任务子ファイルקובץ한글ไฟล์αβγ€→☃'
_ASTRAL = '\U0001f600\U0001f4c1\U00020000\U0001d11e\U000e0041\U0010fffd'
_COMB = ['e\u0301', 'a\u0308\u0323', 'n\u0303o', '\u0301x', 'q\u0307\u0323', '\u1100\u1161\u11a8', 'ก\u0e33']
_CTRL = '\x00\x01\x07\x08\t\n\x0b\x0c\r\x1b\x1f\x7f'
_SEP = '\x80\x85\x9f\xa0\xad\u2028\u2029\u200b\u200e\u202e\ufeff\u3000'
_NONCHAR = '\ufffe\uffff\ufdd0\ufdef\U0001fffe\U0010ffff\ufffd'
_META = ['"', '\\', '/', "'", '\\u00e9', '\\udce9', '\\n', '{"a": 1}', '[', '}', '\\\\"', '%s', '%(x)s', '{0}', '?', '*',
         'null', 'NaN', '--', ';--', "' or ''='"]
# byte strings that are not valid UTF-8 (file names on a latin-1 / shift-jis / broken system)
_BAD_BYTES = [b'caf\xe9.txt', b'\xff', b'\xfe\xff', b'\xe6\x97', b'\xc0\xaf', b'\xed\xa0\x80', b'\x80abc', b'na\xefve/\xfcber.c',
              b'\x83t\x83@\x83C\x83\x8b', b'a\xf0\x9f\x98', b'\xf8\x88\x80\x80\x80', b'dir\xe9/f\xfc.o', b'\xa4\xa4']

# look-alikes: members of one family must stay different entries
FAMILIES = [
    ['\xe9', 'e\u0301', '\\u00e9', 'e'],
    ['caf\udce9.txt', 'caf\xe9.txt', 'caf\ufffd.txt', 'caf?.txt', 'caf.txt', 'caf\\udce9.txt'],
    ['k', 'k\x00', 'k ', ' k', 'K', 'k\n', '\ufeffk', 'k\u200b'],
    ['\xdf', 'ss', '\u1e9e'],
    ['\ufb01le', 'file', '\uff46ile'],
    ['1', '\uff11', '\u0661', '1.0'],
    ['\U0001f600', '\\ud83d\\ude00', '\ufffd', '\ufffd\ufffd'],
    ['\udcff', '\xff', '\udcc3\udcbf', '\xc3\xbf'],
    ['', ' ', '\x00', '\u200b'],
    ['a/b', 'a\\b', 'a\\/b', 'a\u2215b'],
    ['t:s', 't:s\udc80', 't:\u0455'],
    ['\u212b', '\xc5', 'A\u030a'],
    ['\uac00', '\u1100\u1161'],
    ['\x7f', '\x80', '\udc80', '\u20ac'],
]


def has_surrogate(s):
    return any(0xD800 <= ord(c) <= 0xDFFF for c in s)


def is_plain(s):
    return s != '' and all(0x20 <= ord(c) < 0x7f for c in s) and '"' not in s and '\\' not in s


def gen_string(rng, cls, thorough=False):
    pick = lambda pool, a, b: ''.join(rng.choice(pool) for _ in range(rng.randint(a, b)))  # noqa: E731
    if cls == 'ascii':
        return pick(_ALNUM, 1, 8)
    if cls == 'latin1':
        return pick(_ALNUM[:26], 0, 3) + ''.join(chr(rng.randint(0xa1, 0xff)) for _ in range(rng.randint(1, 4)))
    if cls == 'bmp':
        return pick(_BMP, 1, 5) + pick(_ALNUM, 0, 2)
    if cls == 'astral':
        return pick(_ALNUM, 0, 2) + pick(_ASTRAL, 1, 3)
    if cls == 'combining':
        return rng.choice(_COMB) + pick(_ALNUM[:26], 0, 2)
    if cls == 'control':
        return pick(_ALNUM, 0, 2) + pick(_CTRL, 1, 3) + pick(_ALNUM, 0, 2)
    if cls == 'separator':
        return pick(_ALNUM, 0, 2) + pick(_SEP, 1, 3) + pick(_ALNUM, 0, 2)
    if cls == 'nonchar':
        return pick(_ALNUM, 0, 2) + pick(_NONCHAR, 1, 2)
    if cls == 'jsonmeta':
        return ''.join(rng.choice(_META) for _ in range(rng.randint(1, 3)))
    if cls == 'empty':
        return ''
    if cls == 'long':
        n = rng.choice([300, 1100, 5000] if not thorough else [300, 1100, 5000, 70000])
        unit = rng.choice([_BMP, _ASTRAL, _ALNUM + '\xe9\u2028"\\', _SEP + 'x'])
        return (unit * (n // len(unit) + 1))[:n]
    if cls == 'surrogateescape':
        if rng.random() < 0.6:
            b = rng.choice(_BAD_BYTES)
        else:
            b = bytes(rng.choice([rng.randint(0x80, 0xff), rng.randint(0x20, 0x7e), rng.randint(0xc0, 0xf7)])
                      for _ in range(rng.randint(1, 6)))
        s = b.decode('utf-8', 'surrogateescape')
        if not has_surrogate(s):
            s += '\udc80'
        return s
    raise ValueError(cls)


def classify(s):
    """the class a string is counted under in the input distribution (first that applies)"""
    if s == '':
        return 'empty'
    if has_surrogate(s):
        return 'surrogateescape'
    if len(s) >= 300:
        return 'long'
    o = [ord(c) for c in s]
    if any(c < 0x20 or c == 0x7f for c in o):
        return 'control'
    if any(chr(c) in _NONCHAR for c in o):
        return 'nonchar'
    if any(chr(c) in _SEP for c in o):
        return 'separator'
    if any(c > 0xffff for c in o):
        return 'astral'
    if any(0x300 <= c < 0x370 or 0x1100 <= c < 0x1200 or c in (0xe33, 0x323) for c in o):
        return 'combining'
    if any(c > 0xff for c in o):
        return 'bmp'
    if any(c > 0x7f for c in o):
        return 'latin1'
    if any(ch in s for ch in '"\\%{}[]\'?*;'):
        return 'jsonmeta'
    return 'ascii'


def gen_strings(rng, n, classes, thorough=False, family_p=0.5):
    """n distinct strings; with probability family_p the first two/three are look-alikes of one family"""
    res = []
    if n >= 2 and rng.random() < family_p:
        fam = [s for s in rng.choice(FAMILIES) if 'surrogateescape' in classes or not has_surrogate(s)]
        rng.shuffle(fam)
        res = fam[:rng.randint(2, min(3, n, len(fam)))] if len(fam) >= 2 else []
    guard = 0
    while len(res) < n:
        guard += 1
        cls = rng.choice(classes) if guard < 50 else 'ascii'
        if cls == 'long' and any(len(s) >= 300 for s in res):
            continue
        s = gen_string(rng, cls, thorough)
        if s not in res:
            res.append(s)
    rng.shuffle(res)
    return res


def gen_value(rng, strs):
    """a JSON value built around strings of the case (as element, as dict key, nested); lists, never tuples"""
    s = rng.choice(strs)
    s2 = rng.choice(strs)
    shape = rng.randrange(8)
    if shape == 0:
        return s
    if shape == 1:
        return [s, s2]
    if shape == 2:
        return {s: s2}
    if shape == 3:
        return {'deps': [s, {s2: [s, None, 1.5]}], s: True}
    if shape == 4:
        return [[s], {'n': {s2: {s: []}}}]
    if shape == 5:
        return {s: 1, s2: 2} if s != s2 else {s: [1, 2]}
    if shape == 6:
        return [s, 0, s2, False, s + s2]
    return {'md5': 'd41d8cd98f00b204e9800998ecf8427e', 'path': s, 'ts': 1696071600.25}


def make_tables(rng, nt, nk, nv, thorough=False, surrogates=True):
    """tables of one case: tasks (scalar values only), keys and values (also surrogateescape strings)"""
    kv_classes = CLASSES if surrogates else TASK_CLASSES
    tasks = gen_strings(rng, nt, TASK_CLASSES, thorough)
    keys = gen_strings(rng, nk, kv_classes, thorough)
    inner = gen_strings(rng, max(2, nv), kv_classes, thorough)
    if rng.random() < 0.5:
        inner = inner + keys[:1]          # a value that mentions a key of the record (deps: [path])
    vals, cv, guard = [], [], 0
    from c07 import canon
    while len(vals) < nv:
        guard += 1
        v = gen_value(rng, inner) if guard < 40 else 'v%d' % guard
        c = canon(v)
        if c not in cv:
            vals.append(v)
            cv.append(c)
    return tasks, keys, vals


def strings_of(v):
    if isinstance(v, str):
        yield v
    elif isinstance(v, dict):
        for k, x in v.items():
            yield k
            yield from strings_of(x)
    elif isinstance(v, list):
        for x in v:
            yield from strings_of(x)
