"""C02 -- see harness/runfam.py (shared run-family correspondence + oracle_c02); plus harness/delayed_cli.py
(tasks created at run time by create_after creators, through the real command line)."""
import runfam, delayed_cli


def run(ctx):
    out = runfam.run_property(ctx, 'C02')
    delayed_cli.delayed_cli_part(ctx, out, 'C02')
    return out


def replay(ctx, payload):
    print(payload)
    return 0
