"""C02 -- see harness/runfam.py (shared run-family correspondence + oracle_c02); plus harness/delayed_cli.py
(tasks created at run time by create_after creators, through the real command line); plus harness/c02_api.py
(the selection given through doit.api.run_tasks as a dict name -> options: positional values that are absent /
None / empty / non-empty for tasks with pos_arg at every position of the dict, every runner; judged on the closure
computed from the declared case and compared with Model/ApiSelect.v); plus harness/c02_cfg.py (where the run configuration comes from: continue / num_process /
par_type requested on the command line, in DOIT_CONFIG of the dodo module, in doit.cfg [GLOBAL] / [run], in extra_config, the
selection from the command line / default_tasks; through DoitMain.run; judged on the effective continue and closure computed from
the declared case, what Run._execute received compared with Model/RunConfig.v)."""
import json
import runfam, delayed_cli, c02_api, c02_cfg


def run(ctx):
    out = runfam.run_property(ctx, 'C02')
    delayed_cli.delayed_cli_part(ctx, out, 'C02')
    c02_api.api_part(ctx, out)
    c02_cfg.cfg_part(ctx, out)
    return out


def replay(ctx, payload):
    case = payload.get('case') if isinstance(payload, dict) else None
    if isinstance(case, dict) and case.get('part') == 'api':
        return c02_api.replay_case(ctx, case)
    if isinstance(case, dict) and case.get('part') == 'cfg':
        return c02_cfg.replay_case(ctx, case)
    print(json.dumps(payload, indent=1, default=str) if isinstance(payload, dict) else payload)
    return 0
