"""C02 -- see harness/runfam.py (shared run-family correspondence + oracle_c02)."""
import runfam


def run(ctx):
    return runfam.run_property(ctx, 'C02')


def replay(ctx, payload):
    print(payload)
    return 0
