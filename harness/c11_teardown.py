"""C11, teardown-OUTCOME part: "a failing teardown does not prevent the others".

The other parts of C11 (runfam.py, c11.cli_part) use teardown actions that always succeed, plus one that raises.
Here the way a teardown action ENDS is a generated dimension (c11_tdtasks.KINDS): python callables returning
None / True / a string / a dict (ok), returning False or a TaskFailed (FAILED WITHOUT RAISING), raising, returning a
wrong type or a TaskError (error); cmd-actions (string form through the shell, list form without) with exit status
0 / 1..125 (failed) / > 125 (error), a command that does not exist, a command string that cannot be built.  Every
task has 0..3 teardown actions; graphs of 2..6 tasks with task_dep / setup edges, up-to-date tasks, failing task
actions, with and without --continue, selection of a subset.

Drivers (same case description, same task definitions c11_tdtasks.task_dicts):
 * classes: real TaskControl + TaskDispatcher + Runner / MThreadRunner (real threads) / MRunner (real forked
   processes), real Dependency (json DB), a recording reporter (teardown_task / cleanup_error are written to the same
   log file as the actions, cleanup_error calls exception.get_msg() as every real reporter does);
 * cli: `python -m doit run ...` on a generated dodo.py, -n K / -n K -P thread, the real reporters
   (console, executed-only, zero, json, error-only), verbosity 0..2.

Oracle (judge; from the property text, computed from the declared case and the log lines the instrumented actions
wrote -- nothing the code under test computed):  for every task whose action was started (an `rs` line) and every
teardown action j of it: if all teardown actions before j of the SAME task are declared ok, action j ran exactly
once (else at most once); no teardown action of a task that was not started; every teardown after all task actions
(serial / thread; per worker process under -n); for two started tasks a, b of the same runner object with
`a finished before b started` in the log (several worker threads: and b depends on a, see judge): the whole
teardown of b before the teardown of a; one task's teardown
actions in ascending order; under processes in the worker that executed the task; the run ends normally
(run_all returns / exit status 0, 1 or 2).

Model (classes driver): coq/Model/Teardown.v `teardown` evaluated inside Coq on the registration order and the
declared outcome classes; compared with the teardown phase of the log (reports, actions, cleanup errors; per worker
under processes: actions, and reports/errors as forwarded to the main process).  Encoding: report k -> [1;k],
action j of k -> [2;k;j], cleanup_error for k -> [3;k] ([3;k;9] if the reporter did not get a SetupError whose
get_msg() works), run_all raised -> [99]; k = index of the task in the case.
"""
import json, os, signal, subprocess, sys, tempfile
import common
import c11_tdtasks as T

PRE = 'From DoitV Require Import Base Teardown.\nOpen Scope N_scope.\n'
RES = {'ok': 0, 'fail': 1, 'error': 2}
OK_KINDS = sorted(k for k, v in T.KINDS.items() if v == 'ok')
FAIL_KINDS = sorted(k for k, v in T.KINDS.items() if v == 'fail')
ERR_KINDS = sorted(k for k, v in T.KINDS.items() if v == 'error')
REPORTERS = ['console', 'executed-only', 'zero', 'json', 'error-only']
HARNESS_DIR = os.path.dirname(os.path.abspath(__file__))


# ------------------------------------------------------------------------------------------ generation
def gen_kind(rng):
    r = rng.random()
    if r < 0.45:
        return rng.choice(OK_KINDS)
    return rng.choice(FAIL_KINDS) if r < 0.78 else rng.choice(ERR_KINDS)


def gen_case(rng, driver):
    n = rng.choice([2, 3, 3, 4, 4, 5, 6])
    names = ['t%d' % i for i in range(n)]
    tasks = []
    for i in range(n):
        earlier = names[:i]
        t = dict(name=names[i], outcome=rng.choices(['ok', 'fail', 'error'], weights=[10, 1, 1])[0],
                 utd=rng.random() < 0.1,
                 task_dep=sorted(rng.sample(earlier, min(len(earlier), rng.choice([0, 0, 1, 1, 2])))),
                 setup=[], td=[gen_kind(rng) for _ in range(rng.choice([0, 1, 1, 1, 2, 2, 3]))])
        free = [x for x in earlier if x not in t['task_dep']]
        if free and rng.random() < 0.3:
            t['setup'] = [rng.choice(free)]
        tasks.append(t)
    if rng.random() < 0.3:       # runs without any task failure
        for t in tasks:
            t['outcome'] = 'ok'
    flavour = rng.choice(['serial', 'thread', 'proc'])
    sel = names if rng.random() < 0.7 else sorted(rng.sample(names, rng.randrange(1, n + 1)))
    case = dict(part='teardown-outcomes', driver=driver, tasks=tasks, selected=sel, flavour=flavour,
                k=1 if flavour == 'serial' else rng.choice([1, 2, 2, 3]), cont=rng.random() < 0.6, verbosity=0)
    if driver == 'cli':
        case['reporter'] = rng.choice(REPORTERS)
        case['verbosity'] = rng.choice([0, 0, 1, 2])
    return case


def family(kinds, positions, flavours, driver='classes'):
    """three tasks executed one after the other (chained by task_dep), each with a teardown; the teardown of the one
    at `pos` ends in `kind` (followed by a second action that must run iff the first is ok)"""
    out = []
    for kind in kinds:
        for pos in positions:
            for fl, k in flavours:
                tasks = [dict(name='t%d' % i, outcome='ok', utd=False, task_dep=['t%d' % (i - 1)] if i else [], setup=[],
                              td=[kind, 'py_true'] if i == pos else [['py_none'], ['cmd_ok'], ['py_str']][i]) for i in range(3)]
                out.append(dict(part='teardown-outcomes', driver=driver, tasks=tasks, selected=['t0', 't1', 't2'], flavour=fl, k=k,
                                cont=False, verbosity=0))
    return out


# ------------------------------------------------------------------------------------------ drivers
class RecRep:
    """recording reporter; teardown_task / cleanup_error go to the log file of the case"""
    def __init__(self, log):
        self.log = log

    def get_status(self, task): pass
    def skip_ignore(self, task): pass
    def skip_uptodate(self, task): pass
    def add_failure(self, task, fail): pass
    def execute_task(self, task): pass
    def add_success(self, task): pass
    def runtime_error(self, msg): pass
    def complete_run(self): T.say(self.log, 'complete')

    def teardown_task(self, task):
        T.say(self.log, 'rep %s' % task.name)

    def cleanup_error(self, exception):
        # what every real reporter does with it: exception.get_msg(); first line = "ERROR: task '<name>' teardown action"
        try:
            msg = exception.get_msg()
            first = msg.split('\n')[0]
            name = first.split("'")[1] if first.startswith("ERROR: task '") and first.endswith("' teardown action") else '?'
            cls = type(exception).__name__
        except Exception as e:    # noqa
            name, cls = '?', 'get_msg-raised-%s' % type(e).__name__
        T.say(self.log, 'cle %s %s' % (name, cls))


class _Timeout(Exception):
    pass


def _alarm(signum, frame):
    raise _Timeout()


def read_log(path):
    if not os.path.exists(path):
        return []
    with open(path) as fh:
        return [l for l in fh.read().split('\n') if l]


def run_classes(ctx, case):
    from doit.task import dict_to_task, Stream
    from doit.dependency import Dependency, JsonDB
    from doit.control import TaskControl
    import doit.runner as R
    d = tempfile.mkdtemp(prefix='tdo_', dir=ctx.subdir('tdo'))
    log = os.path.join(d, 'log.txt')
    saved = (sys.stdout, sys.stderr)
    crash, rc = None, None
    old = signal.signal(signal.SIGALRM, _alarm)
    signal.setitimer(signal.ITIMER_REAL, 60)
    try:
        tasks = [dict_to_task(x) for x in T.task_dicts(case, log)]
        tc = TaskControl(tasks)
        tc.process(list(case['selected']))
        dep = Dependency(JsonDB, os.path.join(d, 'db.json'))
        args = [dep, RecRep(log), case['cont'], False, Stream(0)]
        cls = {'serial': R.Runner, 'thread': R.MThreadRunner, 'proc': R.MRunner}[case['flavour']]
        if cls is not R.Runner:
            args.append(case['k'])
        rc = cls(*args).run_all(tc.task_dispatcher())
    except _Timeout:
        crash, rc = 'timeout (60 s)', 98
    except BaseException as e:   # noqa -- whatever escapes run_all is an observation, not a harness error
        crash, rc = '%s: %s' % (type(e).__name__, e), 97
    finally:
        signal.setitimer(signal.ITIMER_REAL, 0)
        signal.signal(signal.SIGALRM, old)
        sys.stdout, sys.stderr = saved
    return dict(log=read_log(log), exit=rc, crash=crash)


DODO = '''import json, os, sys
HERE = os.path.dirname(os.path.abspath(__file__))
sys.path.insert(0, %r)
import c11_tdtasks
CASE = json.load(open(os.path.join(HERE, 'case.json')))
DOIT_CONFIG = {'default_tasks': CASE['selected']}
def _mk(d):
    return lambda: d
for _d in c11_tdtasks.task_dicts(CASE, os.path.join(HERE, 'log.txt')):
    globals()['task_' + _d.pop('name')] = _mk(_d)
''' % HARNESS_DIR


def cli_args(case):
    args = ['run', '-r', case.get('reporter', 'console')]
    if case['cont']:
        args.append('--continue')
    if case['flavour'] != 'serial':
        args += ['-n', str(case['k'])] + (['-P', 'thread'] if case['flavour'] == 'thread' else [])
    return args


def run_cli(ctx, case):
    d = tempfile.mkdtemp(prefix='tdc_', dir=ctx.subdir('tdo'))
    with open(os.path.join(d, 'dodo.py'), 'w') as fh:
        fh.write(DODO)
    with open(os.path.join(d, 'case.json'), 'w') as fh:
        json.dump(case, fh)
    try:
        p = subprocess.run([sys.executable, '-m', 'doit'] + cli_args(case), cwd=d, env=common.impl_env(),
                           capture_output=True, text=True, timeout=120)
        rc, err = p.returncode, p.stderr[-600:] + (' | stdout: ' + p.stdout[-300:] if p.returncode not in (0, 1, 2) else '')
    except subprocess.TimeoutExpired:
        rc, err = 98, 'timeout'
    return dict(log=read_log(os.path.join(d, 'log.txt')), exit=rc, crash=None if rc in (0, 1, 2) else 'exit status %s' % rc,
                stderr=err, argv=cli_args(case))


# ------------------------------------------------------------------------------------------ oracle
class Log:
    def __init__(self, lines):
        self.ev = [l.split() for l in lines]
        self.rs, self.re, self.pid = {}, {}, {}
        self.order = []          # started tasks, order of their `rs` lines
        self.tds = []            # (position, task, j, pid)
        for i, e in enumerate(self.ev):
            if e[0] == 'rs' and e[1] not in self.rs:
                self.rs[e[1]] = i; self.pid[e[1]] = e[2]; self.order.append(e[1])
            elif e[0] == 're':
                self.re.setdefault(e[1], i)
            elif e[0] == 'td':
                self.tds.append((i, e[1], int(e[2]), e[3]))


def confounded(case, obs):
    """exit status 3 of `-r json -n K -P thread` (K > 1) is not judged: the KNOWN finding of C17 (thread-overlap-python-actions:
    two python-actions overlapping in different threads leave a doit Writer installed as sys.stdout) makes
    JsonReporter.complete_run fail on `sys.stdout.getvalue()` AFTER all teardowns ran -- AttributeError, exit 3, output
    lost.  Everything else (which teardown actions ran, order, ...) is judged as usual for these runs."""
    return (case['driver'] == 'cli' and case['flavour'] == 'thread' and case['k'] > 1 and case.get('reporter') == 'json'
            and obs['exit'] == 3)


def judge(case, obs):
    """-> [(shape, sentence)]"""
    bad = []
    decl = {t['name']: t for t in case['tasks']}
    L = Log(obs['log'])
    proc = case['flavour'] == 'proc'
    failing = sorted('%s[%d]=%s' % (t['name'], j, k) for t in case['tasks'] for j, k in enumerate(t['td'])
                     if T.KINDS[k] != 'ok' and t['name'] in L.rs)
    ctxt = ' (started: %s; teardown actions declared to fail: %s)' % (L.order, failing or 'none')
    if confounded(case, obs):
        pass
    elif obs.get('crash') or obs['exit'] not in (0, 1, 2):
        bad.append(('tdo-run-crashed', 'the run did not end normally: %s' % (obs.get('crash') or 'exit status %s' % obs['exit'])))
    for name in L.order:
        kinds = decl[name]['td']
        for j, kind in enumerate(kinds):
            c = sum(1 for (_, n, jj, _) in L.tds if n == name and jj == j)
            must = all(T.KINDS[k] == 'ok' for k in kinds[:j])
            if (must and c != 1) or c > 1:
                bad.append(('tdo-count', 'the action of task %s was started, but its teardown action %d (%s) ran %d time(s), expected %s'
                            % (name, j, kind, c, 'exactly once' if must else 'at most once') + ctxt))
    for (_, name, j, pid) in L.tds:
        if name not in L.rs:
            bad.append(('tdo-unstarted', 'teardown action %d of task %s ran although the action of %s was never started' % (j, name, name)))
        elif proc and pid != L.pid[name]:
            bad.append(('tdo-other-worker', 'teardown action %d of task %s ran in process %s, the task was executed by process %s' % (j, name, pid, L.pid[name])))
    for (i, name, j, pid) in L.tds:
        late = [e for e in L.ev[i:] if e[0] in ('rs', 're') and (not proc or e[2] == pid)]
        if late:
            bad.append(('tdo-early', 'teardown action %d of task %s ran before all tasks%s had finished (then: %s)'
                        % (j, name, ' of its worker process' if proc else '', ' '.join(late[0]))))
            break
    first, last = {}, {}
    for (i, name, j, pid) in L.tds:
        first.setdefault(name, i); last[name] = i
    # "reverse order of execution": judged on pairs whose order of execution is beyond doubt.  One thread of control
    # (serial runner, one worker thread, one worker process) registers and executes its tasks strictly one after the
    # other: a before b iff a's action returned before b's began.  With several worker THREADS a task is registered
    # for teardown when its execution starts, a moment before its action begins, so the log lines of two concurrently
    # dispatched tasks do not tell which execution started first; there only pairs ordered by a declared dependency
    # (b needs a, transitively: b is dispatched after a's result was processed) are judged.
    concurrent = case['flavour'] == 'thread' and case['k'] > 1
    below = {}
    for t in case['tasks']:       # tasks only depend on tasks defined before them
        below[t['name']] = set()
        for x in list(t['task_dep']) + list(t['setup']):
            below[t['name']] |= {x} | below.get(x, set())
    for a in L.order:
        for b in L.order:
            if a == b or a not in first or b not in first or a not in L.re or not L.re[a] < L.rs[b]:
                continue
            if (proc and L.pid[a] != L.pid[b]) or (concurrent and a not in below[b]):
                continue
            if not last[b] < first[a]:
                bad.append(('tdo-order', 'task %s finished before task %s started%s, but the teardown of %s did not run wholly before the teardown of %s'
                            % (a, b, ' (and %s depends on it)' % b if concurrent else '', b, a) + ctxt))
    for name in first:
        js = [j for (_, n, j, _) in L.tds if n == name]
        if js != sorted(js):
            bad.append(('tdo-order-within', 'teardown actions of task %s ran in the order %s' % (name, js)))
    return bad


def interesting(case, obs):
    """a failing teardown action really ran while another started task has a teardown too"""
    L = Log(obs['log'])
    with_td = [n for n in L.order if any(t['name'] == n and t['td'] for t in case['tasks'])]
    ran_failing = [(n, j) for (_, n, j, _) in L.tds for t in case['tasks'] if t['name'] == n and j < len(t['td']) and T.KINDS[t['td'][j]] != 'ok']
    return len(with_td) >= 2 and bool(ran_failing)


# ------------------------------------------------------------------------------------------ model side
def model_case(case, obs):
    """-> (Coq expr : list Z, expected ints) or None when the registration order cannot be told from outside"""
    idx = {t['name']: i for i, t in enumerate(case['tasks'])}
    decl = {t['name']: t for t in case['tasks']}
    L = Log(obs['log'])

    def lit(names):
        return '[' + '; '.join('(%d, [%s])' % (idx[n], '; '.join(str(RES[T.KINDS[k]]) for k in decl[n]['td'])) for n in names) + ']'

    def enc(e):
        if e[0] == 'rep':
            return [1, idx.get(e[1], 99)]
        if e[0] == 'td':
            return [2, idx.get(e[1], 99), int(e[2])]
        return [3, idx.get(e[1], 99)] + ([] if e[2] == 'SetupError' else [9])
    reg = [n for n in L.order if decl[n]['td']]
    tail = [99] if obs.get('crash') else []
    if case['flavour'] != 'proc':
        if case['flavour'] == 'thread' and case['k'] > 1:
            # two worker threads can register their tasks in the other order than their actions write the `rs` lines:
            # take the registration order from the reports when they are a permutation of the registered tasks (the
            # ORDER is judged by the oracle on pairs ordered by happens-before; the model then pins the block structure)
            reps = [e[1] for e in L.ev if e[0] == 'rep']
            if sorted(reps) == sorted(reg):
                reg = list(reversed(reps))
        phase = [e for e in L.ev if e[0] in ('rep', 'td', 'cle')]
        return 'enc_td (teardown (mk_tdl %s))' % lit(reg), [x for e in phase for x in enc(e)] + tail
    pids = []
    for n in L.order:
        if L.pid[n] not in pids:
            pids.append(L.pid[n])
    groups, expected = [], []
    for pid in pids:
        mine = [n for n in reg if L.pid[n] == pid]
        groups.append(lit(mine))
        acts = [e for e in L.ev if e[0] == 'td' and e[3] == pid]
        fwd = [e for e in L.ev if e[0] in ('rep', 'cle') and e[1] in mine]
        expected += [x for e in acts for x in enc(e)] + [-1] + [x for e in fwd for x in enc(e)] + [-2]
    stray = [e for e in L.ev if (e[0] == 'td' and e[3] not in pids) or (e[0] in ('rep', 'cle') and e[1] not in reg)]
    expected += [x for e in stray for x in enc(e)] + tail
    return ('flat_map (fun l => enc_td_split (teardown (mk_tdl l)) ++ [-2]%%Z) [%s]' % '; '.join(groups)), expected


# ------------------------------------------------------------------------------------------ the part
def short(case, obs):
    c = dict(case)
    c.update(log=obs['log'], exit=obs['exit'], crash=obs.get('crash'))
    for k in ('stderr', 'argv'):
        if k in obs:
            c[k] = obs[k]
    if case['driver'] == 'cli':
        c['dodo'] = DODO
    return c


def teardown_part(ctx, out):
    import time
    import doit.runner as R
    t_start = time.time()
    procs_ok = R.MRunner.available()
    all_kinds = sorted(T.KINDS)
    flav = [('serial', 1), ('thread', 2), ('proc', 2)]
    todo = family(all_kinds, ctx.n([1, 2], [0, 1, 2]), flav)
    todo += family(ctx.n(['py_false', 'cmd_fail', 'py_raise'], all_kinds), [1], flav, driver='cli')
    todo += [('classes',)] * ctx.n(150, 2500) + [('cli',)] * ctx.n(14, 200)
    cases, n_before = [], len(out.violations)
    for item in todo:
        case = item if isinstance(item, dict) else gen_case(ctx.rng, item[0])
        if case['flavour'] == 'proc' and not procs_ok:
            out.count('tdo:skipped-no-multiprocessing')
            continue
        obs = (run_classes if case['driver'] == 'classes' else run_cli)(ctx, case)
        out.evaluations += 1
        out.count('tdo:%s:%s:exit%s' % (case['driver'], case['flavour'], obs['exit']))
        if confounded(case, obs):
            out.count('tdo:exit3-not-judged(json reporter under threads, known C17 thread-overlap finding)')
        L = Log(obs['log'])
        for (_, n, j, _) in L.tds:
            kinds = [t['td'] for t in case['tasks'] if t['name'] == n]
            if kinds and j < len(kinds[0]):
                out.count('tdo:ran:%s' % kinds[0][j])
        if interesting(case, obs):
            out.nontrivial.add(('tdo', case['driver'], case['flavour'], case['k'], tuple(obs['log'][i].rsplit(' ', 1)[0] if obs['log'][i][:2] in ('rs', 're', 'td') else obs['log'][i]
                                                                                     for i in range(len(obs['log'])))))
        for shape, what in judge(case, obs):
            out.violations.append(dict(what=what + ' [%s driver, %s runner, k=%d]' % (case['driver'], case['flavour'], case['k']),
                                       shape='c11:' + shape, case=short(case, obs)))
        if case['driver'] == 'classes':
            expr, expected = model_case(case, obs)
            cases.append(dict(model=expr, expected=expected, case=short(case, obs)))
    bad = common.compare_with_model(ctx, PRE, cases, tag='tdo') if cases else []
    out.traces_validated += len(cases)
    for i, m in bad:
        out.mismatches.append(dict(case=cases[i]['case'], impl=cases[i]['expected'], model=m))
    if cases:
        out.samples.append(cases[len(cases) // 2]['case'])
    out.extra['teardown_outcome_cases'] = dict(total=len(todo), model_compared=len(cases), violations=len(out.violations) - n_before,
                                               seconds=round(time.time() - t_start, 1))
    out.extra.setdefault('trusted_base', []).append('teardown-outcome oracle harness/c11_teardown.py judge; instrumented task definitions harness/c11_tdtasks.py')
    out.rule += ('; plus teardown-OUTCOME cases (harness/c11_teardown.py): every kind of ending of a teardown action (%d kinds: python returns '
                 'None/True/str/dict/False/TaskFailed/TaskError/wrong type or raises; cmd-actions string/list form exit 0, 1..125, >125, unknown '
                 'command, unbuildable command) x position x {serial, threads, processes} on a 3-task chain, and random graphs (2-6 tasks, 0-3 '
                 'teardown actions each, task_dep/setup, up-to-date and failing tasks, --continue, sub-selection) through the real classes '
                 '(compared with Model/Teardown.v) and through the command line (all reporters, verbosity 0-2); non-trivial = a failing '
                 'teardown action ran while >= 2 started tasks have teardowns, distinct log' % len(T.KINDS))


def replay(ctx, payload):
    case = payload.get('case', payload)
    obs = (run_classes if case.get('driver') == 'classes' else run_cli)(ctx, case)
    print('\n'.join(obs['log']))
    print('exit:', obs['exit'], 'crash:', obs.get('crash'))
    found = judge(case, obs)
    for shape, what in found:
        print('VIOLATION-REPRODUCED c11:%s: %s' % (shape, what))
    return 1 if found else 0
