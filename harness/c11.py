"""C11 -- see harness/runfam.py (shared run-family correspondence + oracle_c11)."""
import runfam


def run(ctx):
    return runfam.run_property(ctx, 'C11')


def replay(ctx, payload):
    print(payload)
    return 0
