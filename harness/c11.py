"""C11 -- setup-tasks are lazy; teardowns run once, in reverse order.
 * shared run-family correspondence + oracle_c11 (harness/runfam.py) under the deterministic scheduler
 * CLI part (real processes / threads, real pickling paths): dodo modules with ordinary tasks and tasks
   created at run time by a create_after creator (those travel to worker processes as fully pickled Task
   objects), setup-tasks, teardown actions that append to a log file, one failing teardown; runners serial,
   -n 2 -P thread, -n 2 (processes).  Oracle: every task whose action was started has exactly one teardown
   line, after every `run` line of its own worker... (serial/thread: all teardowns after all runs, in
   reverse order of execution); a failing teardown does not prevent the others; a setup-task ran before
   its requirer and not at all when the requirer is up-to-date (second run).
 * teardown-OUTCOME part (harness/c11_teardown.py, task definitions harness/c11_tdtasks.py): how a teardown action ends
   (17 kinds: python / cmd-actions succeeding, FAILING WITHOUT RAISING, in error) is a generated dimension, through the
   real classes (compared with coq/Model/Teardown.v) and the command line; oracle "a failing teardown does not prevent
   the others" on the lines the instrumented actions wrote.
"""
import os, subprocess, sys, tempfile, textwrap
import common, runfam, c11_teardown

DODO = textwrap.dedent('''
    import os
    from doit import create_after
    DOIT_CONFIG = {'default_tasks': ['work', 'cached', 'late']}
    LOG = os.path.join(os.path.dirname(os.path.abspath(__file__)), 'log.txt')
    def say(msg):
        with open(LOG, 'a') as fh:
            fh.write(msg + '\\n')
    def boom():
        raise RuntimeError('teardown failed')
    def task_pre():
        return {'actions': [(say, ['run pre'])], 'teardown': [(say, ['td pre'])]}
    def task_env():
        return {'actions': [(say, ['run env'])], 'teardown': [(say, ['td env'])]}
    def task_work():
        return {'actions': [(say, ['run work'])], 'setup': ['env'], 'teardown': [(say, ['td work']) BOOM], 'task_dep': ['pre']}
    def task_cached():
        return {'actions': [(say, ['run cached'])], 'setup': ['lazy'], 'uptodate': [UTD], 'teardown': [(say, ['td cached'])]}
    def task_lazy():
        return {'actions': [(say, ['run lazy'])], 'teardown': [(say, ['td lazy'])]}
    # one list OBJECT used as `setup` by two tasks, one of which also has getargs (an implicit setup-task is
    # appended to ITS setup-tasks, not to the list written here)
    COMMON = ['env2']
    def task_env2():
        return {'actions': [(say, ['run env2'])], 'teardown': [(say, ['td env2'])]}
    def compute():
        say('run compute')
        return {'v': 42}
    def task_compute():
        return {'actions': [compute], 'teardown': [(say, ['td compute'])]}
    def use(v):
        say('run wa')
    def task_wa():
        return {'actions': [use], 'setup': COMMON, 'getargs': {'v': ('compute', 'v')}, 'teardown': [(say, ['td wa'])]}
    def task_wb():
        return {'actions': [(say, ['run wb'])], 'setup': COMMON, 'teardown': [(say, ['td wb'])]}
    @create_after(executed='pre')
    def task_late():
        for n in ('a', 'b'):
            yield {'name': n, 'actions': [(say, ['run late:' + n])], 'teardown': [(say, ['td late:' + n])]}
''')


def cli_part(ctx, out):
    n = 0
    for boom in (False, True):
        for utd in (False, True):
            for rname, args in (('serial', []), ('thread', ['-n', '2', '-P', 'thread']), ('proc', ['-n', '2'])):
                d = tempfile.mkdtemp(prefix='c11_', dir=ctx.tmp); n += 1
                src = DODO.replace('BOOM', ', boom' if boom else '').replace('UTD', 'True' if utd else 'False')
                open(os.path.join(d, 'dodo.py'), 'w').write(src)
                try:
                    p = subprocess.run([sys.executable, '-m', 'doit', 'run', '--continue'] + args, cwd=d, env=common.impl_env(),
                                       capture_output=True, text=True, timeout=120)
                    rc = p.returncode
                except subprocess.TimeoutExpired:
                    rc = 98
                log = open(os.path.join(d, 'log.txt')).read().split('\n')[:-1] if os.path.exists(os.path.join(d, 'log.txt')) else []
                runs = [l[4:] for l in log if l.startswith('run ')]
                tds = [l[3:] for l in log if l.startswith('td ')]
                out.count('cli:%s:rc%s' % (rname, rc)); out.evaluations += 1
                case = dict(dodo=src, args=args, log=log, exit=rc, stderr=(p.stderr[-400:] if rc != 98 else 'timeout'))
                def bad(shape, what):
                    out.violations.append(dict(what=what + ' (%s runner%s)' % (rname, ', a teardown of `work` raises' if boom else ''), shape='c11:cli-' + shape, case=case))
                if rc not in (0,):
                    bad('exit', 'run with teardowns ended with exit code %s' % rc)
                for t in runs:
                    c = tds.count(t)
                    if c != 1:
                        bad('teardown-count', 'actions of task %s were started but its teardown ran %d time(s)' % (t, c))
                for t in tds:
                    if t not in runs:
                        bad('teardown-unstarted', 'teardown of task %s ran although its actions were never started' % t)
                if rname in ('serial', 'thread'):
                    first_td = min([i for i, l in enumerate(log) if l.startswith('td ')] or [len(log)])
                    if any(l.startswith('run ') for l in log[first_td:]):
                        bad('teardown-early', 'a teardown ran before all tasks had finished')
                    if rname == 'serial' and tds != list(reversed(runs)):
                        bad('teardown-order', 'teardowns ran as %s, expected the reverse of %s' % (tds, runs))
                if 'env' in runs and 'work' in runs and runs.index('env') > runs.index('work'):
                    bad('setup-order', 'setup-task env ran after its requirer work')
                if utd and 'lazy' in runs:
                    bad('setup-not-lazy', 'setup-task lazy was executed although its requirer is up-to-date')
                if not utd and ('lazy' not in runs or 'cached' not in runs):
                    bad('setup-missing', 'requirer cached or its setup-task lazy did not run')
    # a setup-task runs only for the task that requires it: `wb` shares its setup LIST with `wa` (which has getargs
    # from `compute`); selecting only `wb` must not run `compute`
    for rname, args in (('serial', []), ('thread', ['-n', '2', '-P', 'thread']), ('proc', ['-n', '2'])):
        d = tempfile.mkdtemp(prefix='c11s_', dir=ctx.tmp); n += 1
        src = DODO.replace('BOOM', '').replace('UTD', 'False')
        open(os.path.join(d, 'dodo.py'), 'w').write(src)
        try:
            p = subprocess.run([sys.executable, '-m', 'doit', 'run', '--continue'] + args + ['wb'], cwd=d, env=common.impl_env(),
                               capture_output=True, text=True, timeout=120)
            rc = p.returncode
        except subprocess.TimeoutExpired:
            rc = 98
        log = open(os.path.join(d, 'log.txt')).read().split('\n')[:-1] if os.path.exists(os.path.join(d, 'log.txt')) else []
        runs = [l[4:] for l in log if l.startswith('run ')]
        out.count('cli-shared-setup:%s:rc%s' % (rname, rc)); out.evaluations += 1
        case = dict(dodo=src, args=args + ['wb'], log=log, exit=rc)
        if rc != 0 or sorted(runs) != ['env2', 'wb']:
            out.violations.append(dict(
                what='`doit run wb` executed %s (exit %s), expected exactly env2 (its setup-task) and wb: `compute` is the getargs source of ANOTHER task that merely shares the setup list object (%s runner)' % (runs, rc, rname),
                shape='c11:cli-setup-of-another-task', case=case))
    out.extra['cli_runs'] = n


def run(ctx):
    out = runfam.run_property(ctx, 'C11')
    cli_part(ctx, out)
    out.rule += '; plus CLI runs (serial, -n 2 -P thread, -n 2 processes) of a dodo with delayed-created tasks, setup-tasks and teardowns (one failing)'
    c11_teardown.teardown_part(ctx, out)
    return out


def replay(ctx, payload):
    case = payload.get('case') if isinstance(payload, dict) else None
    if isinstance(case, dict) and case.get('part') == 'teardown-outcomes':
        return c11_teardown.replay(ctx, payload)
    print(payload)
    return 0
