"""C08 -- parallel runs are outcome-equivalent to the serial run.

PART A (scheduling logic).  Random task graphs of the run family (harness/runlib.py: task_dep, file_dep on a
  target, setup, getargs, calc_dep incl. returned deps, failures of every kind, ignore, up-to-date, teardown,
  --always) that are "not cut short" (failure-free, or --continue) are executed by the REAL Runner and by the
  REAL MThreadRunner / MRunner (thread flavour, process flavour) for k = 1..4 workers under the deterministic
  scheduler of runlib: EVERY interleaving (capped) of the small cases, random interleavings of the others.
  Every single run is compared event for event with Model/Runner.v + Parallel.v inside Coq, and its normalised
  summary (per-task final outcome incl. failure kind, executed set, save_success / remove_success calls,
  teardown reports, exit code) is compared with the summary of the serial run of the same case.
PART B (data transport).  Dodo-like task sets (task creators loaded with doit.loader.load_tasks, delayed
  creators included) are run with REAL threads and REAL processes (MRunner, fork) against a REAL Dependency
  (JsonDB / DbmDB / SqliteDB; md5 / timestamp checker) on copies of one DB + file pre-state produced by an
  earlier run: python actions returning nested / unicode / large values, string results (result_dep consumers),
  printed output, failures of every kind, shell actions writing targets, getargs and calc_dep fed from values
  produced in a worker, delayed tasks (JobTask full pickle path) and ordinary ones (JobTaskPickle +
  update_from_pickle), teardowns, verbosity.  Each run happens in its own interpreter under a watchdog.
  Compared with the serial run: per-task outcome and failure details as the reporter of the MAIN process sees
  them, captured out/err, final values/result of every Task object, what getargs consumers received, the
  normalised DB dump, digests of every file of the work tree, teardowns, exit code.
  Three hand-written task sets come first (fixed_sets): a getargs consumer whose source runs with a new result,
  the same data flow through task_dep/result_dep/calc_dep, and a delayed sub-task selected by name whose trigger fails.
  Differences that are confined to what two known order-dependences of the dispatcher can reach (known_root_causes)
  are reported once per run under the shape of the root cause; everything else under the shape of the section.
PART C (oracle independent of the serial run).  Every action records, through a side channel (a file written
  by the worker itself), what it returned/printed; that must be what the main process reported and saved.

Encoding of a run for the model comparison: runlib's event list flattened (see harness/runfam.py) + [-1, rc].
"""
import copy, hashlib, json, os, re, shutil, signal, subprocess, sys, time, traceback
import concurrent.futures
import common, runlib, runfam
from common import Outcome

HARNESS = os.path.dirname(os.path.abspath(__file__))
FINAL_NAME = {2: 'ignored', 3: 'up-to-date', 6: 'success'}
KIND_NAME = {0: 'TaskFailed', 1: 'TaskError', 2: 'UnmetDependency', 3: 'DependencyError', 9: 'other'}


# ==========================================================================================
# PART A -- scheduling logic under the deterministic scheduler
# ==========================================================================================
def summary_a(case, res):
    """normalised, schedule-independent summary of one observed run (json-able)"""
    ev = res['events']
    outcome = {}
    for e in ev:
        if e[0] in (2, 3, 4, 6):
            nm = FINAL_NAME.get(e[0]) or 'failed:%s' % KIND_NAME.get(e[2], e[2])
            outcome.setdefault(e[1], []).append(nm)
    return dict(
        outcome=[[t, '+'.join(outcome[t])] for t in sorted(outcome)],
        executed=sorted(set(e[1] for e in ev if e[0] == 5)),
        saved=sorted(e[1] for e in ev if e[0] == 7),
        removed=sorted(e[1] for e in ev if e[0] == 8),
        teardown=sorted(set(e[1] for e in ev if e[0] == 9)),
        exit=res['rc'])


DIFF_SHAPES = [('outcome', 'outcome-differs'), ('executed', 'outcome-differs'), ('saved', 'saved-differs'),
               ('removed', 'saved-differs'), ('teardown', 'teardown-differs'), ('exit', 'exit-code-differs')]


def diff_a(s, p):
    """list of (shape, sentence) for every section in which the parallel summary differs from the serial one"""
    bad, seen = [], set()
    for key, shape in DIFF_SHAPES:
        if s[key] != p[key] and shape not in seen:
            seen.add(shape)
            bad.append((shape, '%s: serial %s, parallel %s' % (key, json.dumps(s[key]), json.dumps(p[key]))))
    return bad


def raw(case):
    return {k: v for k, v in case.items() if not k.startswith('_')}


def gen_base(rng, small):
    """a base case of Part A: acyclic graph, biased to failures + --continue, every feature of gen_case"""
    if small:
        c = runlib.gen_case(rng, n=rng.choice([2, 3, 3, 4]), profile=rng.choice(['mixed', 'plain', 'calc']))
        pid = rng.choice(['C19', 'C05', 'C11', None])
    else:
        pid = rng.choice(['C19', 'C19', 'C05', 'C11', 'C02'])
        c = runfam.gen_for(pid, rng)
        pid = None
    n = c['n']
    if pid in ('C19', 'C05'):
        for t in c['tasks']:
            if rng.random() < 0.3:
                t['outcome'] = rng.choice(['fail', 'fail', 'error', 'saveerr', 'failv'])
            if rng.random() < 0.08:
                t['check'] = 'err'
    if pid == 'C11':
        for i, t in enumerate(c['tasks']):
            t['teardown'] = rng.random() < 0.6
            later = list(range(i + 1, n))
            if later and rng.random() < 0.5:
                t['setup'] = sorted(set(t['setup'] + [rng.choice(later)]))
    if small and rng.random() < 0.6:
        c['selected'] = list(range(n))            # many tasks in flight: more interleavings that matter
    if rng.random() < 0.75:
        c['cont'] = True
    return c


def part_a(ctx, out, cases):
    rng = ctx.rng
    n_small, n_big = ctx.n(60, 600), ctx.n(120, 1200)
    lim_all = ctx.n(16, 32)             # cap on enumerated schedules per (case, flavour, k)
    n_rand = ctx.n(2, 3)                # random schedules per (case, flavour, k) of a big case
    budget_small, budget_big = ctx.n(2000, 10000), ctx.n(1700, 9000)      # runs (each one is also evaluated inside Coq)
    used = dict(small=0, big=0)
    stat = dict(base=0, skipped=0, out_of_domain=0, runs=0, exhaustive_complete=0, exhaustive_capped=0, forced_continue=0)
    t0 = time.time()

    def add(case, res, kind):
        defs, expr = runlib.coq_case(case, res, len(cases))
        cases.append(dict(model=expr, expected=res['trace'] + [-1, res['rc']], defs=defs, case=case, res=res, kind=kind))
        stat['runs'] += 1

    for b in range(n_small + n_big):
        small = b < n_small
        if used['small' if small else 'big'] > (budget_small if small else budget_big):
            continue
        before = len(cases)
        base = gen_base(rng, small)
        try:
            ser = dict(copy.deepcopy(raw(base)), flavour='serial', k=1)
            rs = runlib.run_impl(ser)
            if 'skip' in rs:
                stat['skipped'] += 1
                continue
            failed = any(e[0] == 4 for e in rs['events'])
            if failed and not ser['cont'] and rs['rc'] in (0, 1, 2):
                # cut short by a failure: outside the domain; the same graph with --continue is inside
                stat['forced_continue'] += 1
                base['cont'] = True
                ser = dict(copy.deepcopy(raw(base)), flavour='serial', k=1)
                rs = runlib.run_impl(ser)
            add(ser, rs, 'A')
            if rs['rc'] not in (0, 1, 2):
                stat['out_of_domain'] += 1
                out.count('A:serial-exit-%s-out-of-domain' % rs['rc'])
                continue
            stat['base'] += 1
            ss = summary_a(ser, rs)
            kinds = sorted(set(x[1] for x in ss['outcome']))
            out.count('A:%s:%s' % ('small' if small else 'big',
                                   'failure-free' if not failed else ('continue+failures:rc%d' % rs['rc'])))
            for kd in kinds:
                out.count('A:outcome:' + kd)
            traces = set()
            for flavour in ('thread', 'proc'):
                for k in (1, 2, 3, 4):
                    pc = dict(copy.deepcopy(raw(base)), flavour=flavour, k=k)
                    if small:
                        runs = runlib.all_schedules(pc, limit=lim_all)
                        stat['exhaustive_capped' if len(runs) >= lim_all else 'exhaustive_complete'] += 1
                        # the capped depth-first enumeration favours late choice points: add random ones
                        if len(runs) >= lim_all:
                            for _ in range(n_rand):
                                c2 = dict(pc, sched=[rng.randrange(0, 60) for _ in range(120)])
                                runs.append((c2, runlib.run_impl(c2)))
                    else:
                        runs = []
                        for _ in range(n_rand if k > 1 else 1):
                            c2 = dict(pc, sched=[rng.randrange(0, 60) for _ in range(120)])
                            runs.append((c2, runlib.run_impl(c2)))
                    for c2, r2 in runs:
                        if 'skip' in r2:
                            continue
                        add(c2, r2, 'A')
                        traces.add(tuple(r2['trace']))
                        ps = summary_a(c2, r2)
                        for shape, what in diff_a(ss, ps):
                            v = runfam.View(c2, r2)
                            out.violations.append(dict(
                                what='%s flavour, %d worker(s), schedule %s: %s' % (flavour, k, c2['sched'][:len(r2['arity'])], what),
                                shape='c08:' + shape,
                                case=dict(part='A', raw_case=raw(c2), sched=c2['sched'][:max(len(r2['arity']), 1)], serial_summary=ss, parallel_summary=ps,
                                          serial_events=rs['events'], parallel=runfam.desc(v))))
            if len(ss['executed']) >= 2 and len(traces) >= 2:
                out.nontrivial.add(('A', tuple(rs['trace']), base['cont'], len(traces)))
            used['small' if small else 'big'] += len(cases) - before
        except Exception as e:     # a harness-side surprise must be visible, never silent
            out.violations.append(dict(what='part A: exception while running a case: %r' % (e,), shape='c08:harness-exception-A',
                                       case=dict(part='A', raw_case=raw(base), tb=traceback.format_exc()[-1500:])))
    stat['seconds'] = round(time.time() - t0, 1)
    stat['runs_of_small_cases'], stat['runs_of_big_cases'] = used['small'], used['big']
    out.extra['part_A'] = stat


# ==========================================================================================
# PART B / C -- real threads, real processes, real Dependency
# ==========================================================================================
MAIN_PID = None      # pid of the interpreter that runs the doit main loop (set in the worker interpreter)
CONFIGS = [('serial', 0), ('thread', 1), ('thread', 2), ('thread', 3), ('proc', 1), ('proc', 2), ('proc', 3)]
WATCHDOG = 150       # seconds per run (runs take well under a second)

UNI = ['été', '你好', '\U0001f600', 'Ωmega', 'naïve ☃', 'tab\there', 'q"uote\'s', 'back\\slash', '%(x)s 100%', '']


def gen_text(rng, lines=None):
    ln = lines if lines is not None else rng.choice([0, 1, 1, 2, 3])
    return ''.join('%s %s %d\n' % (rng.choice(['alpha', 'beta', 'gamma']), rng.choice(UNI), rng.randrange(1000)) for _ in range(ln))


def gen_value(rng, depth=0):
    r = rng.random()
    if depth >= 3 or r < 0.35:
        return rng.choice([rng.randrange(-5, 10 ** 12), rng.choice(UNI), rng.choice(UNI) * rng.randrange(1, 4), None, True, False,
                           rng.randrange(1000) / 8.0, 'plain%d' % rng.randrange(100), 10 ** 30 + rng.randrange(9)])
    if r < 0.65:
        return [gen_value(rng, depth + 1) for _ in range(rng.randrange(0, 4))]
    return {('k%d' % i if rng.random() < 0.7 else rng.choice(UNI) + str(i)): gen_value(rng, depth + 1) for i in range(rng.randrange(0, 4))}


def gen_set(rng, idx, large=False):
    """a dodo-like task set (json-able spec).  Dependencies point to tasks with a higher index."""
    n = rng.choice([3, 4, 5, 5, 6, 7])
    names = ['t%d' % i for i in range(n)]
    srcs = ['w/src%d.txt' % i for i in range(rng.choice([1, 2, 3]))]
    tasks, may_fail = [], False
    providers = {}      # calc provider -> what it returns
    for i, nm in enumerate(names):
        later = names[i + 1:]
        t = dict(name=nm, task_dep=[], setup=[], calc_dep=[], file_dep=[], targets=[], getargs={}, result_dep=[],
                 uptodate=[], teardown=rng.random() < 0.3, verbosity=rng.choice([None, None, None, 0, 1, 2]), actions=[], volatile=rng.random() < 0.35)
        if rng.random() < 0.75:
            t['targets'] = ['w/%s.out' % nm]
        if later:
            t['task_dep'] = [x for x in rng.sample(later, min(len(later), rng.randrange(0, 3))) if rng.random() < 0.6]
            if rng.random() < 0.25:
                t['setup'] = [rng.choice(later)]
        if rng.random() < 0.55:
            t['file_dep'] = rng.sample(srcs, rng.randrange(1, len(srcs) + 1))
        tasks.append(t)
    # file_dep on the target of a later task (implicit task_dep)
    for i, t in enumerate(tasks):
        for u in tasks[i + 1:]:
            if u['targets'] and rng.random() < 0.3:
                t['file_dep'].append(u['targets'][0])
    # actions
    for i, t in enumerate(tasks):
        na = rng.choice([1, 1, 2, 3])
        writer = rng.randrange(na) if t['targets'] else -1
        for a in range(na):
            if rng.random() < 0.3:
                act = dict(t='cmd', out=gen_text(rng), err=gen_text(rng, rng.choice([0, 0, 1])), exit=0, write=(a == writer),
                           save_out=('so%d' % a if rng.random() < 0.3 else None))
            else:
                ret = rng.choice(['dict', 'dict', 'dict', 'str', 'none', 'true'])
                act = dict(t='py', ret=ret, out=gen_text(rng), err=gen_text(rng, rng.choice([0, 0, 1, 2])), write=(a == writer))
                if ret == 'dict':
                    act['values'] = {'v': gen_value(rng), 'name': t['name'], ('x%d' % a): gen_value(rng)}
                    if rng.random() < 0.3:
                        act['values'][rng.choice(UNI) + '!'] = gen_value(rng)
                if ret == 'str':
                    act['result'] = 'res-%s-%s' % (rng.choice(UNI), rng.randrange(10 ** 6))
                    act['result0'] = act['result'] if rng.random() < 0.5 else act['result'] + '-old'
            t['actions'].append(act)
    # failures
    for t in tasks:
        if rng.random() < 0.22:
            may_fail = True
            kind = rng.choice(['false', 'raise', 'raise', 'taskfailed', 'taskerror', 'noreport', 'badtype', 'exit1', 'exit3', 'exit127', 'missing-file-dep'])
            if kind == 'missing-file-dep':
                t['file_dep'].append('w/does-not-exist-%s' % t['name'])
                continue
            pos = rng.randrange(len(t['actions']))
            if kind.startswith('exit'):
                t['actions'][pos] = dict(t='cmd', out=gen_text(rng), err=gen_text(rng, 1), exit=int(kind[4:]), write=False, save_out=None)
            else:
                t['actions'][pos] = dict(t='py', ret=kind, out=gen_text(rng), err=gen_text(rng), write=False,
                                         msg='boom %s %d' % (rng.choice(UNI), rng.randrange(1000)), exc=rng.choice(['RuntimeError', 'ValueError', 'KeyError', 'C08Error', 'C08ArgsError', 'C08UnpicklableError']))
    # getargs / result_dep consumers (source: a later task)
    for i, t in enumerate(tasks):
        cands = [u for u in tasks[i + 1:] if any(a['t'] == 'py' and a.get('ret') == 'dict' for a in u['actions'])]
        if cands and rng.random() < 0.4:
            u = rng.choice(cands)
            key = rng.choice(['v', 'v', 'name', None, None])
            if rng.random() < 0.07:
                key = 'no-such-key'; may_fail = True
            t['getargs']['got'] = [u['name'], key]
            for a in t['actions']:
                if a['t'] == 'py' and a.get('ret') == 'dict':
                    a['echo_opts'] = True
                if a['t'] == 'cmd' and key == 'name':
                    a['use_opt'] = 'got'          # %(got)s expanded into the shell command inside the worker
        cands = [u for u in tasks[i + 1:] if u['actions'][-1].get('ret') == 'str']
        if cands and rng.random() < 0.5:
            t['result_dep'] = [rng.choice(cands)['name']]
        if rng.random() < 0.12:
            t['uptodate'] = [rng.choice([True, False])]
    # calc_dep: provider p (higher index) returns deps for its user u
    for i, t in enumerate(tasks):
        later = tasks[i + 1:]
        if len(later) >= 2 and rng.random() < 0.3:
            p = rng.choice(later)
            if p['name'] in providers or p['getargs']:
                continue
            pool = [u for u in later if u is not p]
            prov = dict(task_dep=[u['name'] for u in rng.sample(pool, min(len(pool), rng.randrange(0, 3)))],
                        file_dep=[rng.choice(srcs)] + [u['targets'][0] for u in pool if u['targets'] and rng.random() < 0.4])
            providers[p['name']] = prov
            p['actions'].append(dict(t='py', ret='dict', values=prov, out='', err='', write=False))
            t['calc_dep'] = [p['name']]
    # delayed creator
    delayed = None
    if rng.random() < 0.7:
        ex = rng.choice(names + [None])
        subs = []
        group = rng.random() < 0.7
        for k in range(rng.choice([1, 2, 3]) if group else 1):
            dn = 'd:%d' % k if group else 'd'
            st = dict(name=dn, sub=str(k) if group else None, task_dep=[], setup=[], calc_dep=[], file_dep=[], targets=['w/d_%d.out' % k], getargs={},
                      result_dep=[], uptodate=[], teardown=rng.random() < 0.4, verbosity=rng.choice([None, None, 0, 2]), actions=[], volatile=rng.random() < 0.3)
            na = rng.choice([1, 2])
            for a in range(na):
                if rng.random() < 0.3:
                    st['actions'].append(dict(t='cmd', out=gen_text(rng), err=gen_text(rng, 1), exit=0, write=(a == 0), save_out=('so' if rng.random() < 0.4 else None)))
                else:
                    st['actions'].append(dict(t='py', ret='dict', out=gen_text(rng), err=gen_text(rng), write=(a == 0),
                                              values={'v': gen_value(rng), 'name': dn, 'sub%d' % a: gen_value(rng)}))
            if rng.random() < 0.25:
                may_fail = True
                st['actions'][rng.randrange(na)] = dict(t='py', ret=rng.choice(['false', 'raise', 'taskfailed', 'taskerror']), out=gen_text(rng), err=gen_text(rng), write=False,
                                                        msg='delayed boom %s' % rng.choice(UNI), exc=rng.choice(['RuntimeError', 'C08Error', 'C08ArgsError']))
            srcs_v = [u for u in tasks if any(a['t'] == 'py' and a.get('ret') == 'dict' for a in u['actions'])]
            if srcs_v and rng.random() < 0.5:
                u = rng.choice(srcs_v)
                st['getargs']['got'] = [u['name'], rng.choice(['v', None, 'name'])]
                for a in st['actions']:
                    if a['t'] == 'py' and a.get('ret') == 'dict':
                        a['echo_opts'] = True
            for u in tasks:
                if u['targets'] and rng.random() < 0.25:
                    st['file_dep'].append(u['targets'][0])
            if rng.random() < 0.4:
                st['file_dep'].append(rng.choice(srcs))
            subs.append(st)
        delayed = dict(executed=ex, group=group, subs=subs)
        # a consumer of the delayed group, defined statically
        if rng.random() < 0.6:
            z = dict(name='z', task_dep=['d'], setup=[], calc_dep=[], file_dep=[], targets=['w/z.out'], getargs={}, result_dep=[], uptodate=[],
                     teardown=False, verbosity=None, volatile=False,
                     actions=[dict(t='py', ret='dict', values={'v': 'z'}, out=gen_text(rng), err='', write=True, echo_opts=True)])
            if rng.random() < 0.6:
                z['getargs']['dv'] = ['d', rng.choice(['v', 'name', None])]
            tasks.append(z)
    if large and tasks:
        t = rng.choice(tasks)
        for a in t['actions']:
            if a['t'] == 'py' and a.get('ret') == 'dict':
                a['values'] = dict(a['values'], big=('0123456789abcdefé' * 20000), biglist=list(range(30000)))
            if a['t'] == 'py':
                a['out'] = 'large line é\n' * 30000
        subs_ = tasks + (delayed['subs'] if delayed else [])
        c = rng.choice(subs_)
        for a in c['actions']:
            if a['t'] == 'cmd':
                a['big_out'] = 150000
    for t in tasks + (delayed['subs'] if delayed else []):
        for a in t['actions']:
            if rng.random() < 0.3:
                a['sleep'] = rng.choice([5, 10, 20, 40, 70])
    order = list(range(len(tasks)))
    rng.shuffle(order)
    all_names = [t['name'] for t in tasks] + (['d'] if delayed else [])
    # selection
    r = rng.random()
    if r < 0.6:
        selected = None
    else:
        selected = rng.sample(all_names, rng.randrange(1, len(all_names) + 1))
        if delayed and delayed['group'] and rng.random() < 0.5:
            selected.append('d:0')          # a sub-task of a delayed creator selected by name (placeholder path)
    # pre-state
    pre = rng.random() < 0.75
    muts = []
    if pre:
        for s in srcs:
            r = rng.random()
            if r < 0.3:
                muts.append(['rewrite', s, 'new content %d\n' % rng.randrange(1000)])
            elif r < 0.45:
                muts.append(['touch', s])
        for t in tasks + (delayed['subs'] if delayed else []):
            r = rng.random()
            if r < 0.08:
                muts.append(['ignore', t['name']])
            elif r < 0.16:
                muts.append(['forget', t['name']])
            elif r < 0.26 and t['targets']:
                muts.append(['rm', t['targets'][0]])
    return dict(idx=idx, tasks=tasks, order=order, delayed=delayed, srcs=srcs, selected=selected,
                cont=True if may_fail else rng.random() < 0.5, may_fail=may_fail, always=rng.random() < 0.1,
                backend=rng.choice(['json', 'json', 'dbm', 'sqlite']), checker=rng.choice(['md5', 'md5', 'md5', 'timestamp']),
                verbosity=rng.choice([None, None, 0, 1, 2]), force_verbosity=rng.random() < 0.1, pre=pre, muts=muts, large=large)


def blank_task(name, **kw):
    t = dict(name=name, task_dep=[], setup=[], calc_dep=[], file_dep=[], targets=[], getargs={}, result_dep=[], uptodate=[],
             teardown=False, verbosity=None, actions=[], volatile=False)
    t.update(kw)
    return t


def fixed_sets():
    """hand-written task sets that every run includes (idx < 0 .. they come first)"""
    sets = []
    # 1. a getargs consumer whose source is executed in the same run with a NEW result: the consumer is up-to-date
    #    w.r.t. the result saved by the previous run, stale w.r.t. the one being produced
    a = blank_task('a', volatile=True, actions=[dict(t='py', ret='dict', values={'v': 'from-a', 'name': 'a'}, out='a runs\n', err='', write=False, sleep=30)])
    b = blank_task('b', file_dep=['w/src0.txt'], targets=['w/b.out'], getargs={'got': ['a', None]},
                   actions=[dict(t='py', ret='dict', values={'v': 'from-b', 'name': 'b'}, out='b runs\n', err='', write=True, echo_opts=True)])
    c = blank_task('c', file_dep=['w/b.out'], targets=['w/c.out'], actions=[dict(t='cmd', out='c runs\n', err='', exit=0, write=True, save_out=None)])
    sets.append(dict(tasks=[a, b, c], order=[0, 1, 2], delayed=None, srcs=['w/src0.txt'], selected=None, cont=False, may_fail=False, always=False,
                     backend='json', checker='md5', verbosity=None, force_verbosity=False, pre=True, muts=[], large=False, fixed='getargs-source-runs-with-new-result'))
    # 2. the same data flow through explicit dependencies (task_dep + result_dep, calc_dep): no such window
    a2 = blank_task('a', volatile=True, actions=[dict(t='py', ret='str', result='new-result', result0='old-result', out='', err='', write=False, sleep=30)])
    b2 = blank_task('b', file_dep=['w/src0.txt'], targets=['w/b.out'], result_dep=['a'],
                    actions=[dict(t='py', ret='dict', values={'v': 1, 'name': 'b'}, out='', err='', write=True)])
    p2 = blank_task('p', actions=[dict(t='py', ret='dict', values={'file_dep': ['w/b.out'], 'task_dep': ['a']}, out='', err='', write=False, sleep=20)])
    u2 = blank_task('u', calc_dep=['p'], targets=['w/u.out'], actions=[dict(t='cmd', out='u\n', err='', exit=0, write=True, save_out='so')])
    sets.append(dict(tasks=[a2, b2, p2, u2], order=[3, 0, 1, 2], delayed=None, srcs=['w/src0.txt'], selected=None, cont=False, may_fail=False, always=False,
                     backend='sqlite', checker='md5', verbosity=None, force_verbosity=False, pre=True, muts=[], large=False, fixed='result-dep-and-calc-dep-chain'))
    # 3. a sub-task of a delayed creator selected by name, the creator's trigger (`executed`) fails, --continue
    f3 = blank_task('f', actions=[dict(t='py', ret='false', out='f fails\n', err='', write=False, sleep=30, msg='', exc='RuntimeError')])
    z3 = blank_task('z', task_dep=['d'], targets=['w/z.out'], actions=[dict(t='py', ret='dict', values={'v': 'z'}, out='', err='', write=True)])
    sub = blank_task('d:0', sub='0', targets=['w/d_0.out'], actions=[dict(t='py', ret='dict', values={'v': 'sub', 'name': 'd:0'}, out='sub runs\n', err='', write=True)])
    sets.append(dict(tasks=[f3, z3], order=[0, 1], delayed=dict(executed='f', group=True, subs=[sub]), srcs=['w/src0.txt'], selected=['z', 'd:0'], cont=True,
                     may_fail=True, always=False, backend='dbm', checker='md5', verbosity=None, force_verbosity=False, pre=False, muts=[], large=False,
                     fixed='delayed-subtask-selected-by-name-trigger-fails'))
    for k, s in enumerate(sets):
        s['idx'] = -(k + 1)
    return sets


def all_specs(spec):
    return spec['tasks'] + (spec['delayed']['subs'] if spec['delayed'] else [])


def dependents_closure(spec, roots):
    """roots + everything that (transitively) depends on them, through any kind of edge of the spec"""
    every = all_specs(spec)
    target_of = {tg: t['name'] for t in every for tg in t['targets']}
    deps = {}
    for t in every:
        d = set(t['task_dep']) | set(t['setup']) | set(t['calc_dep']) | set(t['result_dep']) | set(v[0] for v in t['getargs'].values())
        d |= set(target_of[f] for f in t['file_dep'] if f in target_of)
        for c in t['calc_dep']:
            for u in every:
                if u['name'] == c:
                    for a in u['actions']:
                        vals = a.get('values') or {}
                        d |= set(vals.get('task_dep', [])) | set(target_of[f] for f in vals.get('file_dep', []) if f in target_of)
        deps[t['name']] = d
    if spec['delayed']:
        deps['d'] = deps.get('d', set()) | set(st['name'] for st in spec['delayed']['subs'] if st['name'] != 'd')
        if spec['delayed']['executed']:
            deps['d'].add(spec['delayed']['executed'])
    clo = set(roots)
    changed = True
    while changed:
        changed = False
        for nm, d in deps.items():
            if nm not in clo and d & clo:
                clo.add(nm); changed = True
    return clo


def lazy_needs_closure(spec, roots):
    """what only the roots bring into a run: their setup-tasks / getargs sources (created only once the root reaches
    status `run`) and everything those depend on.  When a root is doomed in one run (reported unmet / ignored at its
    first selection) and not in the other, these tasks are processed in one run only."""
    every = {t['name']: t for t in all_specs(spec)}
    target_of = {tg: t['name'] for t in every.values() for tg in t['targets']}
    def deps_of(t):
        d = set(t['task_dep']) | set(t['setup']) | set(t['calc_dep']) | set(t['result_dep']) | set(v[0] for v in t['getargs'].values())
        return d | set(target_of[f] for f in t['file_dep'] if f in target_of)
    todo = []
    for r in roots:
        t = every.get(r)
        if t:
            todo += list(set(t['setup']) | set(v[0] for v in t['getargs'].values()))
    seen = set()
    while todo:
        x = todo.pop()
        if x in seen:
            continue
        seen.add(x)
        if x in every:
            todo += list(deps_of(every[x]))
    return seen


def reach_of(spec, roots):
    return dependents_closure(spec, roots) | lazy_needs_closure(spec, roots)


def differing_tasks(spec, ns, np_):
    """names of the tasks about which the two normalised runs disagree ('?...' = something not attributable to a task)"""
    every = all_specs(spec)
    target_of = {tg: t['name'] for t in every for tg in t['targets']}
    prod_of = {'prod.%s.json' % t['name'].replace(':', '_'): t['name'] for t in every}
    bad = set()
    for key in ('outcome', 'details', 'output', 'final', 'db'):
        a, b = ns[key], np_[key]
        bad |= set(k for k in set(a) | set(b) if a.get(k) != b.get(k))
    bad |= set(ns['executed']) ^ set(np_['executed'])
    bad |= set(ns['teardown_reports']) ^ set(np_['teardown_reports'])
    bad |= set(x[0] for x in (set(map(tuple, ns['teardown'])) ^ set(map(tuple, np_['teardown']))))
    for f in set(ns['seen']) | set(np_['seen']):
        if ns['seen'].get(f) != np_['seen'].get(f):
            bad.add(prod_of.get(f, '?' + f))
    for f in set(ns['files']) | set(np_['files']):
        if ns['files'].get(f) != np_['files'].get(f):
            bad.add(target_of.get(f, '?' + f))
    if ns['exit'] != np_['exit'] and ns['outcome'] == np_['outcome']:
        bad.add('?exit')
    return bad


def known_root_causes(spec, ns, np_):
    """two order-dependences of the dispatcher that real runs of generated task sets keep meeting; differences that are confined to
    the tasks they can reach are reported once, under the shape of the root cause:
    (1) getargs: the source is only a setup-task of the consumer, so the consumer's up-to-date check (which reads the saved result
        of the source) is not ordered w.r.t. the execution of the source when the source is part of the run for another reason;
    (2) a sub-task of a delayed creator selected by name: the node built from the by-name placeholder inherits the status of the
        creator's trigger task (`executed`), the node built from the created task does not."""
    every = all_specs(spec)
    # the saved result of the source changes when it is executed, and also when it fails without being executed (record removed)
    touched = set(ns['executed']) | set(np_['executed'])
    for o in (ns['outcome'], np_['outcome']):
        touched |= set(nm for nm, v in o.items() if v not in ('up-to-date', 'ignored'))
    r1 = set()
    for t in every:
        for src, key in t['getargs'].values():
            if src in touched or any(x.startswith(src + ':') for x in touched):
                r1.add(t['name'])
    r2 = set()
    dl = spec['delayed']
    if dl and dl['executed'] and spec['selected']:
        trig = ns['outcome'].get(dl['executed'], '')
        if trig.startswith('failed') or trig == 'ignored':
            r2 = set(st['name'] for st in dl['subs'] if st['name'] in spec['selected'] and ':' in st['name'])
    return r1, r2


# ---------------------------------------------------------------- code that runs inside the run interpreter
class C08Error(Exception):
    pass


class C08ArgsError(Exception):
    """application exception with its own constructor signature: cls(*exc.args) does not rebuild it, so it
    does not survive a pickle round trip as an exception object (doit must ship only text to the main process)"""
    def __init__(self, host, port):
        super().__init__('cannot reach %s:%s' % (host, port))
        self.host, self.port = host, port


class C08UnpicklableError(Exception):
    """holds something that cannot be pickled at all"""
    def __init__(self, msg):
        super().__init__(msg)
        self.handle = (lambda: None)


def _aux_write(name, obj):
    """side channel: written by whoever executes the action (worker thread / worker process), never through doit"""
    fd = os.open(os.path.join('aux', name), os.O_WRONLY | os.O_CREAT | os.O_APPEND, 0o644)
    try:
        os.write(fd, (json.dumps(obj) + '\n').encode('utf-8'))
    finally:
        os.close(fd)


def _digest_file(path):
    try:
        with open(path, 'rb') as f:
            return hashlib.md5(f.read()).hexdigest()
    except OSError:
        return 'MISSING'


class PyAct(object):
    """a generated python-action (module level class: picklable for the JobTask path)"""
    def __init__(self, tname, idx, spec, gen):
        self.tname, self.idx, self.spec, self.gen = tname, idx, spec, gen

    def __repr__(self):
        return '<PyAct %s.%d>' % (self.tname, self.idx)

    def __call__(self, task, targets, dependencies, changed, **opts):
        s = self.spec
        ret = s['ret']
        if self.gen == 0 and ret not in ('dict', 'str', 'none', 'true'):
            ret = 'true'                       # the run that builds the pre-state has no failures
        if s.get('sleep') and self.gen:
            time.sleep(s['sleep'] / 1000.0)          # real interleavings differ only if tasks take time
        if s.get('out'):
            sys.stdout.write(s['out'])
        if s.get('err'):
            sys.stderr.write(s['err'])
        rec = dict(action=self.idx, kind='py', ret=ret, out=s.get('out') or '', err=s.get('err') or '',
                   opts=opts, changed=sorted(changed), dependencies=sorted(dependencies), in_main_process=(os.getpid() == MAIN_PID),
                   options=dict(task.options or {}))
        if s.get('write'):
            body = json.dumps(dict(task=task.name, salt=(self.gen if s.get('volatile') else 'fixed'), deps=[[d, _digest_file(d)] for d in sorted(dependencies)],
                                   opts=opts), sort_keys=True)
            for tg in targets:
                with open(tg, 'w') as f:
                    f.write(body)
        value = None
        if ret == 'dict':
            value = dict(s['values'])
            if s.get('volatile'):
                value['salt'] = self.gen
            if s.get('echo_opts'):
                value['got_opts'] = opts
            rec['values'] = value
        elif ret == 'str':
            value = s['result'] if self.gen else s.get('result0', s['result'])
            rec['result'] = value
        elif ret == 'none':
            value = None
        elif ret == 'true':
            value = True
        rec['msg'] = s.get('msg')
        _aux_write('prod.%s.json' % task.name.replace(':', '_'), rec)
        if ret == 'false':
            return False
        if ret == 'raise':
            if s['exc'] == 'C08ArgsError':
                raise C08ArgsError(s['msg'], 8080)
            raise {'RuntimeError': RuntimeError, 'ValueError': ValueError, 'KeyError': KeyError, 'C08Error': C08Error,
                   'C08UnpicklableError': C08UnpicklableError}[s['exc']](s['msg'])
        if ret in ('taskfailed', 'taskerror', 'noreport'):
            from doit.exceptions import TaskFailed, TaskError
            if ret == 'taskfailed':
                return TaskFailed(s['msg'])
            if ret == 'taskerror':
                return TaskError(s['msg'])
            return TaskFailed(s['msg'], report=False)
        if ret == 'badtype':
            return 42
        return value


class TdAct(object):
    """teardown action: leaves a line in aux/teardown.log"""
    def __init__(self, tname):
        self.tname = tname

    def __repr__(self):
        return '<TdAct %s>' % self.tname

    def __call__(self, task):
        vals = {k: v for k, v in task.values.items() if not k.startswith('_result:')}
        _aux_write('teardown.log', dict(task=task.name, values=hashlib.md5(json.dumps(vals, sort_keys=True).encode()).hexdigest(),
                                        in_main_process=(os.getpid() == MAIN_PID)))


def cmd_string(tname, idx, a, gen):
    """shell text of a generated cmd-action (python %-expansion by doit happens first: %% for a literal %)"""
    import shlex
    q = lambda s: shlex.quote(s).replace('%', '%%')
    parts = []
    if a.get('sleep') and gen:
        parts.append('sleep %.3f' % (a['sleep'] / 1000.0))
    if a.get('out'):
        parts.append('printf %%%%s %s' % q(a['out']))
    if a.get('big_out'):
        parts.append('head -c %d /dev/zero | tr "\\0" x; echo' % a['big_out'])
    if a.get('use_opt'):
        parts.append('echo opt=%%(%s)s' % a['use_opt'])
    if a.get('err'):
        parts.append('printf %%%%s %s 1>&2' % q(a['err']))
    if a.get('write'):
        # the digest of the dependencies must not depend on the iteration order of the file_dep set
        parts.append('{ echo %s; for f in %%(dependencies)s; do md5sum $f; done | sort | md5sum; } > %%(targets)s'
                     % q('%s.%d.%s' % (tname, idx, gen if a.get('volatile') else 'fixed')))
    code = a.get('exit', 0) if gen else 0
    if code == 127:
        parts.append('c08-no-such-command-xyz')
    elif code:
        parts.append('exit %d' % code)
    return '; '.join(parts) or 'true'


def build_task_dict(t, gen):
    """the dict a task-creator of a dodo file would return for task spec t"""
    from doit.action import CmdAction
    from doit.task import result_dep
    actions = []
    for i, a in enumerate(t['actions']):
        a = dict(a, volatile=t.get('volatile'))
        if a['t'] == 'py':
            actions.append(PyAct(t['name'], i, a, gen))
        else:
            s = cmd_string(t['name'], i, a, gen)
            actions.append(CmdAction(s, save_out=a['save_out']) if a.get('save_out') else s)
    d = dict(actions=actions, file_dep=list(t['file_dep']), targets=list(t['targets']), task_dep=list(t['task_dep']),
             setup=list(t['setup']), calc_dep=list(t['calc_dep']))
    if t['getargs']:
        d['getargs'] = {k: (v[0], v[1]) for k, v in t['getargs'].items()}
    upt = list(t['uptodate']) + [result_dep(x) for x in t['result_dep']]
    if upt:
        d['uptodate'] = upt
    if t['teardown']:
        d['teardown'] = [TdAct(t['name'])]
    if t['verbosity'] is not None:
        d['verbosity'] = t['verbosity']
    return d


def build_namespace(spec, gen):
    """dodo-like namespace {task_<name>: creator}; delayed creators are decorated with doit.loader.create_after"""
    from doit.loader import create_after
    ns = {}

    def static(t):
        def creator():
            return build_task_dict(t, gen)
        return creator
    entries = [('task_' + spec['tasks'][i]['name'], static(spec['tasks'][i])) for i in spec['order']]
    dl = spec['delayed']
    if dl:
        def creator_d():
            if dl['group']:
                for st in dl['subs']:
                    d = build_task_dict(st, gen)
                    d['name'] = st['sub']
                    yield d
            else:
                d = build_task_dict(dl['subs'][0], gen)
                yield dict(d, basename='d')
        creator_d = create_after(executed=dl['executed'])(creator_d)
        pos = spec['idx'] % (len(entries) + 1)
        entries.insert(pos, ('task_d', creator_d))
    for k, v in entries:
        ns[k] = v
    return ns


class RealReporter(object):
    """recording reporter; every method runs in the MAIN process (worker processes see doit's MReporter)"""
    def __init__(self, log, reports):
        self.log, self.reports = log, reports

    def initialize(self, tasks, selected): pass
    def get_status(self, task): self.log.append(['status', task.name])
    def execute_task(self, task): self.log.append(['execute', task.name])
    def skip_uptodate(self, task): self.log.append(['up-to-date', task.name])
    def skip_ignore(self, task): self.log.append(['ignored', task.name])
    def teardown_task(self, task): self.log.append(['teardown', task.name])
    def cleanup_error(self, exception): self.log.append(['cleanup-error', str(exception.message)])
    def runtime_error(self, msg): self.log.append(['runtime-error', msg])
    def complete_run(self): self.log.append(['complete'])

    def _snap(self, task):
        acts = task.actions
        return dict(values=copy.deepcopy(task.values), result=task.result, outs=[a.out for a in acts], errs=[a.err for a in acts],
                    kinds=[a.__class__.__name__ for a in acts], executed=task.executed, verbosity=task.verbosity,
                    options=copy.deepcopy(task.options), dep_changed=sorted(task.dep_changed or []), file_dep=sorted(task.file_dep),
                    task_dep=sorted(set(task.task_dep)), in_main_process=(os.getpid() == MAIN_PID))

    def add_success(self, task):
        self.log.append(['success', task.name])
        self.reports.setdefault(task.name, []).append(dict(self._snap(task), outcome='success'))

    def add_failure(self, task, fail):
        self.log.append(['fail', task.name, fail.get_name()])
        self.reports.setdefault(task.name, []).append(dict(
            self._snap(task), outcome='failed', cls=fail.get_name(), message=fail.message, traceback=''.join(fail.traceback),
            report=fail.report))


def dump_db(backend):
    """raw content of the dependency DB, read without doit"""
    data = {}
    if backend == 'json':
        if os.path.exists('db/db'):
            with open('db/db') as f:
                data = json.load(f)
    elif backend == 'dbm':
        import dbm
        try:
            d = dbm.open('db/db', 'r')
        except dbm.error:
            return {}
        for k in d.keys():
            data[k.decode('utf-8')] = json.loads(d[k].decode('utf-8'))
        d.close()
    else:
        import sqlite3
        if os.path.exists('db/db'):
            conn = sqlite3.connect('db/db')
            for tid, td in conn.execute('select task_id, task_data from doit'):
                data[tid] = json.loads(td if isinstance(td, str) else td.decode('utf-8'))
            conn.close()
    return data


def real_run(job):
    """one run of a task set in the current directory (own interpreter)"""
    global MAIN_PID
    MAIN_PID = os.getpid()
    spec, gen, (flavour, nproc) = job['spec'], job['gen'], job['cfg']
    from doit.loader import load_tasks
    from doit.control import TaskControl
    from doit.task import Stream
    from doit.dependency import Dependency, JsonDB, DbmDB, SqliteDB, MD5Checker, TimestampChecker
    from doit.exceptions import InvalidDodoFile, InvalidCommand, InvalidTask
    import doit.runner as R
    os.makedirs('aux', exist_ok=True); os.makedirs('db', exist_ok=True); os.makedirs('w', exist_ok=True)
    res = dict(cfg=[flavour, nproc], gen=gen)
    if gen == 0 or not spec['pre']:
        if not os.path.exists('w/.init'):
            for s in spec['srcs']:
                with open(s, 'w') as f:
                    f.write('source %s\n' % s)
            open('w/.init', 'w').close()
    log, reports, jobs = [], {}, {}
    dbcls = {'json': JsonDB, 'dbm': DbmDB, 'sqlite': SqliteDB}[spec['backend']]
    checker = {'md5': MD5Checker, 'timestamp': TimestampChecker}[spec['checker']]
    saved = (sys.stdout, sys.stderr)
    rt = open('aux/realtime.txt', 'a', buffering=1)
    rc, crash = None, None
    tc = None
    try:
        sys.stdout = sys.stderr = rt
        try:
            task_list = load_tasks(build_namespace(spec, gen), allow_delayed=True)
            tc = TaskControl(task_list)
            tc.process(list(spec['selected']) if (gen and spec['selected'] is not None) else None)
            dep = Dependency(dbcls, 'db/db', checker_cls=checker)
            rep = RealReporter(log, reports)
            stream = Stream(spec['verbosity'], spec['force_verbosity'])
            cont = True if gen == 0 else spec['cont']
            always = False if gen == 0 else spec['always']
            if flavour == 'serial':
                runner = R.Runner(dep, rep, cont, always, stream)
            else:
                cls = R.MRunner if flavour == 'proc' else R.MThreadRunner
                if flavour == 'proc' and not R.MRunner.available():
                    return dict(res, unavailable=True)
                runner = cls(dep, rep, cont, always, stream, nproc)
                orig = runner.get_next_job

                def spy(completed):
                    j = orig(completed)
                    if j is not None and hasattr(j, 'name'):
                        jobs[j.name] = j.__class__.__name__
                    return j
                runner.get_next_job = spy
            rc = runner.run_all(tc.task_dispatcher())
        except InvalidDodoFile as e:
            rc, crash = 3, repr(e)
        except (InvalidCommand, InvalidTask) as e:
            rc, crash = 3, repr(e)
        except BaseException as e:
            rc, crash = 97, '%r\n%s' % (e, traceback.format_exc()[-2000:])
    finally:
        sys.stdout, sys.stderr = saved
        rt.close()
    res.update(rc=rc, crash=crash, log=log, reports=reports, jobs=jobs)
    final = {}
    if tc is not None:
        for nm, t in tc.tasks.items():
            final[nm] = dict(values=t.values, result=t.result, executed=t.executed, loader=repr(t.loader) if t.loader in (None, False) else 'loader',
                             has_subtask=t.has_subtask)
    res['final'] = final
    if gen == 0:
        # mutations between the two generations (history of the work tree / DB), through the real Dependency API
        dep2 = Dependency(dbcls, 'db/db', checker_cls=checker)
        for m in spec['muts']:
            if m[0] == 'rewrite':
                with open(m[1], 'w') as f:
                    f.write(m[2])
            elif m[0] == 'touch':
                st = os.stat(m[1]); os.utime(m[1], ns=(st.st_atime_ns, st.st_mtime_ns + 5 * 10 ** 9))
            elif m[0] == 'rm':
                if os.path.exists(m[1]):
                    os.remove(m[1])
            elif m[0] == 'ignore':
                if m[1] in tc.tasks:
                    dep2.ignore(tc.tasks[m[1]])
            elif m[0] == 'forget':
                dep2.remove(m[1])
        dep2.close()
        shutil.rmtree('aux', ignore_errors=True)
        return res
    res['db'] = dump_db(spec['backend'])
    files = {}
    for root, _, fs in os.walk('w'):
        for f in fs:
            p = os.path.join(root, f)
            files[p] = _digest_file(p)
    res['files'] = files
    aux = {}
    for f in sorted(os.listdir('aux')):
        if f.startswith('prod.') or f == 'teardown.log':
            with open(os.path.join('aux', f), encoding='utf-8') as fh:
                aux[f] = [json.loads(l) for l in fh.read().splitlines() if l.strip()]
    res['aux'] = aux
    return res


def worker_main(jobfile):
    with open(jobfile) as f:
        job = json.load(f)
    common.use_repo()
    os.chdir(job['dir'])
    try:
        res = real_run(job)
    except BaseException as e:
        res = dict(rc=96, crash='harness/worker: %r\n%s' % (e, traceback.format_exc()[-2500:]))
    tmp = job['out'] + '.tmp'
    with open(tmp, 'w') as f:
        json.dump(res, f, default=repr)
    os.rename(tmp, job['out'])


# ---------------------------------------------------------------- driver side (check process)
def launch(job):
    """run one job in its own interpreter under the watchdog; returns its result dict"""
    jf = job['out'] + '.job'
    with open(jf, 'w') as f:
        json.dump(job, f)
    code = 'import sys; sys.path.insert(0, %r); import c08; c08.worker_main(sys.argv[1])' % HARNESS
    t0 = time.time()
    p = subprocess.Popen([common.PY, '-c', code, jf], env=common.impl_env(), stdout=subprocess.PIPE, stderr=subprocess.PIPE,
                         start_new_session=True)
    try:
        so, se = p.communicate(timeout=WATCHDOG)
    except subprocess.TimeoutExpired:
        try:
            os.killpg(p.pid, signal.SIGKILL)
        except OSError:
            pass
        so, se = p.communicate()
        return dict(rc=98, crash='watchdog: no result after %d s' % WATCHDOG, hang=True, wall=time.time() - t0)
    finally:
        try:
            os.killpg(p.pid, signal.SIGKILL)      # stray worker processes of a broken run
        except OSError:
            pass
    if os.path.exists(job['out']):
        with open(job['out']) as f:
            r = json.load(f)
    else:
        r = dict(rc=96, crash='interpreter ended (%s) without a result: %s' % (p.returncode, (se or b'').decode('utf-8', 'replace')[-1500:]))
    r['wall'] = time.time() - t0
    r['stderr'] = (se or b'').decode('utf-8', 'replace')[-600:]
    return r


ADDR = re.compile(r'0x[0-9a-fA-F]+')


def jr(x):
    """what a value looks like after the JSON codec of the DB"""
    return json.loads(json.dumps(x))


def strip_result_keys(vals):
    return {k: v for k, v in (vals or {}).items() if not k.startswith('_result:')}


def norm_b(r, flavour, nproc):
    """sections of a real run that must not depend on the runner"""
    thread_overlap = (flavour == 'thread' and nproc > 1)     # captured output of python-actions: see assumptions (C17 known finding)
    outcome, details, output = {}, {}, {}
    for ev in r['log']:
        if ev[0] in ('success', 'up-to-date', 'ignored'):
            outcome.setdefault(ev[1], []).append(ev[0])
        elif ev[0] == 'fail':
            outcome.setdefault(ev[1], []).append('failed:' + ev[2])
    executed = sorted(set(ev[1] for ev in r['log'] if ev[0] == 'execute'))
    for nm, reps in r['reports'].items():
        for rp in reps:
            d = dict(outcome=rp['outcome'], values=rp['values'], result=rp['result'], executed=rp['executed'], verbosity=rp['verbosity'],
                     options=rp['options'], file_dep=rp['file_dep'], task_dep=rp['task_dep'], in_main=rp['in_main_process'])
            if rp['outcome'] == 'failed':
                msg = rp['message']
                if rp['cls'] == 'UnmetDependency':
                    msg = ' '.join(sorted(set(msg.split())))      # order (and repetition) in which the failed dependencies were met
                d.update(cls=rp['cls'], message=ADDR.sub('0x', msg), traceback=ADDR.sub('0x', rp['traceback']), report=rp['report'])
            details.setdefault(nm, []).append(d)
            outs = [(o if not (thread_overlap and k == 'PythonAction') else '*') for o, k in zip(rp['outs'], rp['kinds'])]
            errs = [(o if not (thread_overlap and k == 'PythonAction') else '*') for o, k in zip(rp['errs'], rp['kinds'])]
            output.setdefault(nm, []).append([outs, errs])
    db = {}
    for tid, rec in r.get('db', {}).items():
        nr = {}
        for k, v in rec.items():
            if k == 'deps:':
                nr[k] = sorted(v)
            elif k in ('_values_:', 'result:', 'checker:', 'ignore:'):
                nr[k] = v
            elif isinstance(v, list) and len(v) == 3:
                nr[k] = ['mtime', v[1], v[2]]          # md5 checker: (mtime, size, md5)
            else:
                nr[k] = 'timestamp'
        db[tid] = nr
    seen = {}
    for f, recs in r.get('aux', {}).items():
        if f.startswith('prod.'):
            seen[f] = [dict(action=x['action'], opts=x['opts'], options=x['options'], changed=x['changed'], dependencies=x['dependencies']) for x in recs]
    td_log = sorted((x['task'], x['values']) for x in r.get('aux', {}).get('teardown.log', []))
    final = {nm: dict(values=f['values'], result=f['result'], executed=f['executed'], has_subtask=f['has_subtask']) for nm, f in r.get('final', {}).items()}
    return dict(exit=r['rc'], outcome={k: '+'.join(v) for k, v in outcome.items()}, executed=executed, details=details, output=output,
                final=final, db=db, files=r.get('files', {}), seen=seen, teardown=td_log,
                teardown_reports=sorted(set(ev[1] for ev in r['log'] if ev[0] == 'teardown')))


SECTIONS_B = [('exit', 'real-exit-code-differs'), ('outcome', 'real-outcome-differs'), ('executed', 'real-outcome-differs'),
              ('details', 'real-task-data-or-failure-details-differ'), ('output', 'real-captured-output-differs'),
              ('final', 'real-final-task-state-differs'), ('db', 'real-db-differs'), ('files', 'real-target-files-differ'),
              ('seen', 'real-getargs-or-inputs-seen-by-action-differ'), ('teardown', 'real-teardown-differs'),
              ('teardown_reports', 'real-teardown-differs')]


def first_diff(a, b, path=''):
    """human-sized description of the first difference between two json-able values"""
    if type(a) != type(b):
        return '%s: %.200r vs %.200r' % (path, a, b)
    if isinstance(a, dict):
        for k in sorted(set(a) | set(b), key=str):
            if k not in a or k not in b:
                return '%s/%s: only in %s' % (path, k, 'serial' if k in a else 'parallel')
            d = first_diff(a[k], b[k], '%s/%s' % (path, k))
            if d:
                return d
        return None
    if isinstance(a, list):
        if len(a) != len(b):
            return '%s: length %d vs %d' % (path, len(a), len(b))
        for i, (x, y) in enumerate(zip(a, b)):
            d = first_diff(x, y, '%s[%d]' % (path, i))
            if d:
                return d
        return None
    if a != b:
        return '%s: %.200r vs %.200r' % (path, a, b)
    return None


def expected_md5(s):
    return hashlib.md5(s.encode('utf-8')).hexdigest()


def oracle_c(spec, r, flavour, nproc):
    """PART C: what the actions produced inside the worker (side channel) == what the main process reported/saved"""
    bad = []
    thread_overlap = (flavour == 'thread' and nproc > 1)
    by_name = {t['name']: t for t in spec['tasks'] + (spec['delayed']['subs'] if spec['delayed'] else [])}
    checked = 0
    for nm, reps in r['reports'].items():
        if nm not in by_name or len(reps) != 1:
            continue
        rp = reps[0]
        prod = r['aux'].get('prod.%s.json' % nm.replace(':', '_'), [])
        if not rp['executed']:
            if prod:
                bad.append(('unexecuted-task-ran', 'task %s reported as not executed but its actions ran' % nm))
            continue
        t = by_name[nm]
        if flavour == 'proc' and any(x['in_main_process'] for x in prod):
            bad.append(('action-ran-in-main-process', 'task %s: an action ran in the main process under the process runner' % nm))
        if not rp['in_main_process']:
            bad.append(('report-outside-main', 'task %s was reported outside the main process' % nm))
        # walk the actions in order: expected values / result / out / err
        exp_values, exp_result, exp_outs, exp_errs, failed_at = {}, None, [], [], None
        pi = 0
        for i, a in enumerate(t['actions']):
            if a['t'] == 'py':
                rec = prod[pi] if pi < len(prod) and prod[pi]['action'] == i else None
                if rec is None:
                    bad.append(('side-channel-missing', 'task %s action %d: executed according to the main process, no trace of it in the worker' % (nm, i)))
                    break
                pi += 1
                exp_outs.append(rec['out']); exp_errs.append(rec['err'])
                if rec['ret'] in ('false', 'raise', 'taskfailed', 'taskerror', 'noreport', 'badtype'):
                    failed_at = (i, rec)
                    break
                if rec['ret'] == 'dict':
                    exp_values.update(rec['values']); exp_result = rec['values']
                elif rec['ret'] == 'str':
                    exp_result = rec['result']
                else:
                    exp_result = None
            else:
                out = (a.get('out') or '')
                if a.get('big_out'):
                    out += 'x' * a['big_out'] + '\n'
                if a.get('use_opt'):
                    out += 'opt=%s\n' % (rp['options'] or {}).get(a['use_opt'])
                err = a.get('err') or ''
                code = a.get('exit', 0)
                if code == 127 or (a.get('write') and any('does-not-exist' in f for f in rp['file_dep'])):
                    err = None                                  # text of the shell / of md5sum about a missing file_dep
                exp_outs.append(out); exp_errs.append(err)
                if code:
                    failed_at = (i, dict(ret='exit%d' % code))
                    break
                if a.get('save_out'):
                    exp_values[a['save_out']] = out
                exp_result = out + (err or '')
        else:
            pass
        checked += 1
        nact = len(exp_outs)
        got_outs, got_errs = rp['outs'][:nact], rp['errs'][:nact]
        for i in range(nact):
            if thread_overlap and rp['kinds'][i] == 'PythonAction':
                continue
            if got_outs[i] != exp_outs[i]:
                bad.append(('captured-stdout-not-intact', 'task %s action %d: stdout produced %.80r, main process has %.80r' % (nm, i, exp_outs[i], got_outs[i])))
            if exp_errs[i] is not None and got_errs[i] != exp_errs[i]:
                bad.append(('captured-stderr-not-intact', 'task %s action %d: stderr produced %.80r, main process has %.80r' % (nm, i, exp_errs[i], got_errs[i])))
        if failed_at is None:
            if rp['outcome'] != 'success':
                if rp.get('cls') != 'DependencyError':       # saving may legitimately fail (file_dep vanished) -- not generated here
                    bad.append(('success-reported-failed', 'task %s: every action succeeded in the worker, main process reports %s' % (nm, rp.get('cls'))))
                continue
            if strip_result_keys(rp['values']) != exp_values:
                bad.append(('values-not-intact', 'task %s: values produced in the worker != values in the main process: %s' % (nm, first_diff(exp_values, strip_result_keys(rp['values'])))))
            if rp['result'] != exp_result:
                bad.append(('result-not-intact', 'task %s: result produced %.80r, main process has %.80r' % (nm, exp_result, rp['result'])))
            rec = r['db'].get(nm)
            if rec is None:
                bad.append(('success-not-saved', 'task %s successful but absent from the DB' % nm))
            else:
                if strip_result_keys(rec.get('_values_:')) != jr(exp_values):
                    bad.append(('saved-values-not-intact', 'task %s: saved values differ from produced ones: %s' % (nm, first_diff(jr(exp_values), strip_result_keys(rec.get('_values_:'))))))
                want = (jr(exp_result) if isinstance(exp_result, dict) else expected_md5(exp_result)) if exp_result else None
                if want is not None and rec.get('result:') != want:
                    bad.append(('saved-result-not-intact', 'task %s: saved result %.80r, expected %.80r' % (nm, rec.get('result:'), want)))
        else:
            i, rec = failed_at
            if rp['outcome'] != 'failed':
                bad.append(('failure-lost', 'task %s: action %d failed in the worker (%s), main process reports success' % (nm, i, rec['ret'])))
                continue
            want_cls = {'false': 'TaskFailed', 'taskfailed': 'TaskFailed', 'noreport': 'TaskFailed', 'raise': 'TaskError', 'taskerror': 'TaskError',
                        'badtype': 'TaskError', 'exit1': 'TaskFailed', 'exit3': 'TaskFailed', 'exit127': 'TaskError'}[rec['ret']]
            if rp['cls'] != want_cls:
                bad.append(('failure-class-not-intact', 'task %s: failure %s in the worker reported as %s' % (nm, want_cls, rp['cls'])))
            msg_ok = True
            if rec['ret'] in ('taskfailed', 'taskerror', 'noreport'):
                msg_ok = rp['message'] == rec['msg']
            elif rec['ret'] == 'raise':
                last = (rp['traceback'].strip().splitlines() or [''])[-1]
                msg_ok = rp['message'] == 'PythonAction Error' and (rec['msg'].strip() in last or repr(rec['msg']) in last)
            elif rec['ret'] == 'false':
                msg_ok = rp['message'] == "Python Task failed: '<PyAct %s.%d>' returned False" % (nm, i)
            elif rec['ret'].startswith('exit'):
                msg_ok = rp['message'].startswith('Command ') and rp['message'].endswith('returned %s' % rec['ret'][4:])
            if not msg_ok:
                bad.append(('failure-message-not-intact', 'task %s: failure (%s, %r) reached the main process as %.200r / %.200r' % (nm, rec['ret'], rec.get('msg'), rp['message'], rp['traceback'][-200:])))
            if rp['report'] != (rec['ret'] != 'noreport'):
                bad.append(('failure-report-flag-not-intact', 'task %s: report flag %s' % (nm, rp['report'])))
            if nm in r['db']:
                bad.append(('failed-task-saved', 'task %s failed but has a DB record' % nm))
    return bad, checked


def part_b(ctx, out):
    rng = ctx.rng
    n_sets = ctx.n(44, 700)
    t0 = time.time()
    specs = fixed_sets() + [gen_set(rng, i, large=(i % ctx.n(11, 9) == 3)) for i in range(n_sets)]
    root = ctx.subdir('real')
    stat = dict(task_sets=len(specs), runs=0, serial_out_of_domain=0, hangs=0, compared=0, part_c_tasks_checked=0, JobTask=0, JobTaskPickle=0,
                tasks_executed_in_worker_process=0, slowest_run_s=0.0)
    workers = max(2, min(common.NCPU, 16))

    def job_for(spec, gen, cfg, d):
        return dict(spec=spec, gen=gen, cfg=list(cfg), dir=d, out=os.path.join(root, 'res-%d-%d-%s%d.json' % (spec['idx'], gen, cfg[0], cfg[1])))

    with concurrent.futures.ThreadPoolExecutor(max_workers=workers) as ex:
        # phase 1: the pre-state (one serial run + mutations) of every task set that has one
        pre_dirs = {}
        futs = {}
        for spec in specs:
            d = os.path.join(root, 's%d-pre' % spec['idx'])
            os.makedirs(d)
            pre_dirs[spec['idx']] = d
            if spec['pre']:
                futs[spec['idx']] = ex.submit(launch, job_for(spec, 0, ('serial', 0), d))
        pre_res = {i: f.result() for i, f in futs.items()}
        # phase 2: every configuration on its own copy
        futs = {}
        for spec in specs:
            i = spec['idx']
            if spec['pre'] and pre_res[i].get('rc') not in (0, 1, 2):
                continue
            for cfg in CONFIGS:
                d = os.path.join(root, 's%d-%s%d' % (i, cfg[0], cfg[1]))
                shutil.copytree(pre_dirs[i], d, symlinks=True)
                futs[(i, cfg)] = ex.submit(launch, job_for(spec, 1, cfg, d))
        results = {k: f.result() for k, f in futs.items()}
    for spec in specs:
        i = spec['idx']
        slim = {k: v for k, v in spec.items()}
        try:
            if spec['pre'] and pre_res[i].get('rc') not in (0, 1, 2):
                stat['serial_out_of_domain'] += 1
                out.count('B:pre-state-run-failed')
                out.violations.append(dict(what='part B: the failure-free serial run building the pre-state ended with %s: %s' % (pre_res[i].get('rc'), str(pre_res[i].get('crash'))[:600]),
                                           shape='c08:real-serial-pre-run-crash', case=dict(part='B', spec=slim)))
                continue
            rs = results[(i, CONFIGS[0])]
            stat['runs'] += 1
            if rs.get('rc') not in (0, 1, 2):
                stat['serial_out_of_domain'] += 1
                out.count('B:serial-exit-%s-out-of-domain' % rs.get('rc'))
                if rs.get('rc') in (96, 97, 98):
                    out.violations.append(dict(what='part B: serial run crashed/hung (%s): %s' % (rs.get('rc'), str(rs.get('crash'))[:800]),
                                               shape='c08:real-serial-crash', case=dict(part='B', spec=slim)))
                continue
            ns = norm_b(rs, 'serial', 0)
            fails = sorted(set(v for v in ns['outcome'].values() if v.startswith('failed')))
            if fails and not spec['cont']:
                stat['serial_out_of_domain'] += 1          # cut short by a failure: not in the domain of the property
                out.count('B:cut-short-by-failure-out-of-domain')
                continue
            out.count('B:%s:%s:%s' % (spec['backend'], spec['checker'], 'failures' if fails else 'failure-free'))
            for v in ns['outcome'].values():
                out.count('B:outcome:' + v)
            for shape, what in oracle_c(spec, rs, 'serial', 0)[0]:
                out.violations.append(dict(what='serial runner: ' + what, shape='c08:serial-' + shape, case=dict(part='C', spec=slim, cfg=['serial', 0])))
            worker_exec = 0
            for cfg in CONFIGS[1:]:
                rp = results[(i, cfg)]
                stat['runs'] += 1
                stat['slowest_run_s'] = max(stat['slowest_run_s'], round(rp.get('wall', 0), 1))
                if rp.get('unavailable'):
                    out.count('B:multiprocessing-unavailable')
                    continue
                label = '%s runner, %d worker(s)' % ('process' if cfg[0] == 'proc' else 'thread', cfg[1])
                if rp.get('hang'):
                    stat['hangs'] += 1
                    out.violations.append(dict(what='%s: run did not finish within %d s (serial run: exit %s)' % (label, WATCHDOG, rs['rc']),
                                               shape='c08:real-hang', case=dict(part='B', spec=slim, cfg=list(cfg))))
                    continue
                if rp.get('rc') not in (0, 1, 2) or 'log' not in rp:
                    out.violations.append(dict(what='%s: run ended with %s (serial: exit %s): %s' % (label, rp.get('rc'), rs['rc'], str(rp.get('crash'))[:800]),
                                               shape='c08:real-crash', case=dict(part='B', spec=slim, cfg=list(cfg))))
                    continue
                # serial sections that contain python-action output must be masked the same way for thread n>1
                ns_cmp = norm_b(rs, cfg[0], cfg[1]) if (cfg[0] == 'thread' and cfg[1] > 1) else ns
                np_ = norm_b(rp, cfg[0], cfg[1])
                stat['compared'] += 1
                seen_shapes = set()
                diffs = [(key, shape) for key, shape in SECTIONS_B if ns_cmp[key] != np_[key]]
                small = lambda x: x if len(json.dumps(x, default=repr)) < 30000 else '(too large, see first difference)'
                if diffs:
                    who = differing_tasks(spec, ns_cmp, np_)
                    r1, r2 = known_root_causes(spec, ns_cmp, np_)
                    detail = '; '.join('%s (%s)' % (k, first_diff(ns_cmp[k], np_[k], k)) for k, _ in diffs)
                    common_case = dict(part='B', spec=slim, cfg=list(cfg), differing_tasks=sorted(who), serial_outcome=ns_cmp['outcome'], parallel_outcome=np_['outcome'],
                                       serial_executed=ns_cmp['executed'], parallel_executed=np_['executed'])
                    if r1 and who <= reach_of(spec, r1):
                        stat['attributed_to_getargs_order'] = stat.get('attributed_to_getargs_order', 0) + 1
                        out.violations.append(dict(
                            what=('%s: task(s) %s differ from the serial run; all of them are, or depend on, getargs consumers %s whose source task was executed (or failed) in the same run: '
                                  'the source is only a setup-task of the consumer, so the up-to-date check of the consumer reads the result the source saved in the '
                                  'PREVIOUS run or the new one depending on the completion order (checked while/before the source runs vs. after).  %s'
                                  % (label, sorted(who), sorted(r1 & dependents_closure(spec, r1)), detail)),
                            shape='c08:getargs-consumer-check-not-ordered-after-source', case=dict(common_case, consumers=sorted(r1))))
                        diffs = []
                    elif r2 and who <= reach_of(spec, r2):
                        stat['attributed_to_placeholder'] = stat.get('attributed_to_placeholder', 0) + 1
                        out.violations.append(dict(
                            what=('%s: sub-task(s) %s of a delayed creator were selected by name and the creator\'s trigger task %r %s: the node built from the by-name '
                                  'placeholder keeps the status of the trigger, the node built from the created task does not; which one is built depends on the '
                                  'completion order.  %s' % (label, sorted(r2), spec['delayed']['executed'], ns_cmp['outcome'].get(spec['delayed']['executed']), detail)),
                            shape='c08:delayed-subtask-by-name-after-failed-trigger', case=dict(common_case, subtasks=sorted(r2))))
                        diffs = []
                    elif (r1 or r2) and who <= reach_of(spec, r1 | r2):
                        stat['attributed_to_getargs_order'] = stat.get('attributed_to_getargs_order', 0) + 1
                        out.violations.append(dict(
                            what='%s: task(s) %s differ; all reachable from getargs consumers %s / by-name delayed sub-tasks %s (see the two root causes).  %s'
                                 % (label, sorted(who), sorted(r1), sorted(r2), detail),
                            shape='c08:getargs-consumer-check-not-ordered-after-source', case=dict(common_case, consumers=sorted(r1), subtasks=sorted(r2))))
                        diffs = []
                for key, shape in diffs:
                    if shape not in seen_shapes:
                        seen_shapes.add(shape)
                        out.violations.append(dict(
                            what='%s: %s differs from the serial run: %s' % (label, key, first_diff(ns_cmp[key], np_[key], key)),
                            shape='c08:' + shape, case=dict(part='B', spec=slim, cfg=list(cfg), section=key, serial=small(ns_cmp[key]), parallel=small(np_[key]))))
                bad, checked = oracle_c(spec, rp, cfg[0], cfg[1])
                stat['part_c_tasks_checked'] += checked
                for shape, what in bad:
                    out.violations.append(dict(what='%s: %s' % (label, what), shape='c08:' + shape, case=dict(part='C', spec=slim, cfg=list(cfg))))
                if cfg[0] == 'proc':
                    for nm, jt in rp.get('jobs', {}).items():
                        stat[jt] = stat.get(jt, 0) + 1
                    n_in_worker = sum(1 for recs in rp['aux'].values() for x in recs if x.get('kind') == 'py' and not x['in_main_process'])
                    stat['tasks_executed_in_worker_process'] += n_in_worker
                    if cfg[1] >= 2:
                        worker_exec = max(worker_exec, len(np_['executed']))
            out.evaluations += 1
            if worker_exec >= 2:
                out.nontrivial.add(('B', i, hashlib.md5(json.dumps(spec, sort_keys=True, default=str).encode()).hexdigest()))
            if len(out.samples) < 3 and i % 7 == 1 and not spec['large']:
                out.samples.append(dict(part='B', spec=spec, serial=dict(exit=ns['exit'], outcome=ns['outcome'], executed=ns['executed'], teardown=ns['teardown_reports'])))
        except Exception as e:
            out.violations.append(dict(what='part B: exception while judging a task set: %r' % (e,), shape='c08:harness-exception-B',
                                       case=dict(part='B', spec=slim, tb=traceback.format_exc()[-1500:])))
    stat['seconds'] = round(time.time() - t0, 1)
    out.extra['part_B_C'] = stat
    shutil.rmtree(root, ignore_errors=True)


# ==========================================================================================
def run(ctx):
    out = Outcome()
    cases = []
    part_a(ctx, out, cases)
    t0 = time.time()
    bad = common.compare_with_model(ctx, runlib.PRE, cases)
    out.traces_validated = len(cases)
    out.extra['part_A']['coq_seconds'] = round(time.time() - t0, 1)
    for i, m in bad:
        c = cases[i]
        out.mismatches.append(dict(case=runfam.desc(runfam.View(c['case'], c['res'])), impl=c['expected'], model=m))
    out.evaluations = len(cases)
    if cases:
        s = cases[len(cases) // 3]
        out.samples.append(dict(part='A', **runfam.desc(runfam.View(s['case'], s['res']))))
    part_b(ctx, out)
    out.rule = ('A: random acyclic task graphs (2-10 tasks; task_dep, file_dep-on-target, setup, getargs, calc_dep incl. returned deps, failures of every kind, ignore, '
                'up-to-date, teardown, --always), failure-free or --continue, serial vs {thread, process flavour} x k=1..4 x {all schedules (capped) of the 2-4 task cases, '
                'random schedules of the others}; non-trivial = distinct serial trace with >= 2 executed tasks whose parallel runs show >= 2 different event orders.  '
                'B/C: generated dodo-like task sets on real threads / real processes / real DB backends, 7 runner configurations each; '
                'non-trivial = distinct task set of which a process run with >= 2 workers executed >= 2 tasks')
    out.extra['trusted_base'] = ['deterministic scheduler harness/runlib.py (FakeQueue/FakeChild) for part A', 'wake_rank/calc_rank oracles recorded from the run',
                                 'part B/C generators, side channel and normalisation in harness/c08.py; fork start method of multiprocessing']
    out.assumptions = ['scheduler granularity (commutation of main-thread segments and worker steps except through the queues)',
                       'part A: process flavour simulated in threads with per-worker runner copies; the dependency manager is a recording fake at the runner seam',
                       'part B: real processes are sampled by the OS scheduler (not enumerated); tasks are deterministic and do not depend on the iteration order of file_dep',
                       'part B: with >= 2 worker THREADS the captured stdout/stderr of python-actions is not compared (process-global sys.stdout swap, known finding of C17); '
                       'with 1 thread and with processes it is',
                       'part B: the order of the names inside an UnmetDependency message (completion order of the failed dependencies) is normalised']
    return out


def replay(ctx, payload):
    case = payload.get('case', payload)
    if case.get('part') == 'A':
        rc = case['raw_case']
        ser = dict(copy.deepcopy(rc), flavour='serial', k=1)
        rs = runlib.run_impl(ser)
        par = dict(copy.deepcopy(rc), sched=list(case['sched']) + [0] * 80)
        rp = runlib.run_impl(par)
        ss, ps = summary_a(ser, rs), summary_a(par, rp)
        print('serial  :', json.dumps(ss)); print('parallel:', json.dumps(ps))
        d = diff_a(ss, ps)
        for shape, what in d:
            print('DIFF', shape, what)
        return 1 if d else 0
    spec, cfg = case['spec'], tuple(case.get('cfg') or ('proc', 2))
    root = ctx.subdir('replay')
    pre = os.path.join(root, 'pre'); os.makedirs(pre)
    if spec['pre']:
        print('pre-state run:', launch(dict(spec=spec, gen=0, cfg=['serial', 0], dir=pre, out=os.path.join(root, 'pre.json'))).get('rc'))
    res = {}
    for c in (('serial', 0), cfg):
        d = os.path.join(root, '%s%d' % c)
        shutil.copytree(pre, d, symlinks=True)
        res[c] = launch(dict(spec=spec, gen=1, cfg=list(c), dir=d, out=os.path.join(root, 'r-%s%d.json' % c)))
    status = 0
    if any('log' not in r for r in res.values()):
        print({k: (r.get('rc'), r.get('crash')) for k, r in res.items()})
        return 1
    ns, np_ = norm_b(res[('serial', 0)], cfg[0], cfg[1]), norm_b(res[cfg], cfg[0], cfg[1])
    for key, shape in SECTIONS_B:
        if ns[key] != np_[key]:
            print('DIFF', shape, first_diff(ns[key], np_[key], key)); status = 1
    if status:
        who = differing_tasks(spec, ns, np_)
        r1, r2 = known_root_causes(spec, ns, np_)
        print('tasks that differ:', sorted(who))
        if r1 and who <= reach_of(spec, r1 | r2):
            print('ATTRIBUTED-TO c08:getargs-consumer-check-not-ordered-after-source, consumers', sorted(r1), 'by-name delayed sub-tasks', sorted(r2))
        elif r2 and who <= reach_of(spec, r2):
            print('ATTRIBUTED-TO c08:delayed-subtask-by-name-after-failed-trigger', sorted(r2))
    for c, r in res.items():
        for shape, what in oracle_c(spec, r, c[0], c[1])[0]:
            print('ORACLE-C', c, shape, what); status = 1
    return status
