"""C01 -- dependency-ordered execution under every schedule.

Correspondence: the real TaskDispatcher + Runner / MThreadRunner / MRunner (the parallel ones under the
deterministic scheduler of runlib, thread flavour and process flavour) against Model/Dispatch.v +
Runner.v + Parallel.v, event for event.  Independent oracle: on the implementation's own trace every
task start is preceded by the final report of each task it depends on (dependencies read from the
real Task objects after the run, so calc_dep results count too).  Real multiprocessing runs are sampled
and judged by the oracle only.

Spelling part (c01_spelling.py): the target and the file_dep of every file edge are written independently in
every text variant ('./x', 'a//b', 'a/./b', 'a/up/../b', 'a/b/', absolute) and python type (str, PurePath,
Path, PurePosixPath), also in the file_dep a calc_dep task returns; the demanded edges are computed from the
declarations (key equality, pathlib as oracle), the table TaskControl builds and the whole run are compared
with Model/Implicit.v control_init (+ runner models), and generated dodo files are run through the command
line with real files and history.
"""
import itertools, os, sys, tempfile, time
import common, runlib, delayed_cli, c01_spelling
from common import Outcome


def small_dags(n):
    """all DAGs over task_dep with edges i -> j (i < j)"""
    pairs = [(i, j) for i in range(n) for j in range(i + 1, n)]
    for mask in range(1 << len(pairs)):
        deps = [[] for _ in range(n)]
        for b, (i, j) in enumerate(pairs):
            if mask >> b & 1:
                deps[i].append(j)
        yield deps


def plain_case(deps, selected, flavour, k, cont=False):
    tasks = [dict(task_dep=d, setup=[], calc_dep=[], file_edge=[], teardown=False, dbignore=False, check='run',
                  argerr=False, outcome='ok', calc_task=[], calc_file=[], calc_calc=[], getargs=[]) for d in deps]
    return dict(n=len(deps), tasks=tasks, selected=selected, cont=cont, always=False, flavour=flavour, k=k, sched=[0] * 80)


def add_case(out, cases, case, res, kind):
    defs, expr = runlib.coq_case(case, res, len(cases))
    cases.append(dict(model=expr, expected=res['trace'] + [-1, res['rc']], defs=defs, case=case, res=res, kind=kind))
    out.count('%s:%s' % (kind, case['flavour']))
    edges = sum(len(t['task_dep']) + len(t['setup']) + len(t['calc_dep']) for t in case['tasks'])
    if edges >= 1 and any(ev[0] in (5, 20) for ev in res['events']):
        out.nontrivial.add((kind, case['flavour'], case['k'], tuple(res['trace'])))
    bad = runlib.check_dep_order(res['events'], res['real_deps'], case['flavour'], case)
    if bad:
        out.violations.append(dict(
            what='task %s started before its dependencies %s finished (%s runner)' % (bad[0]['task'], bad[0]['unfinished_deps'], case['flavour']),
            shape='dep-order:%s' % case['flavour'],
            case=dict(tasks=res['rows'], selected=case['selected'], flavour=case['flavour'], k=case['k'], sched=case['sched'][:len(res['arity'])],
                      cont=case['cont'], always=case['always'], events=res['events'])))


def part_exhaustive(ctx, out, cases):
    rng = ctx.rng
    sizes = [2, 3] if ctx.quick else [2, 3, 4]
    budget = ctx.n(450, 6000)
    for n in sizes:
        for deps in small_dags(n):
            sels = [list(range(n)), [0]] if n < 4 else [[0], [3, 0]]
            for sel in sels:
                c = plain_case(deps, sel, 'serial', 1)
                res = runlib.run_impl(c)
                if 'skip' not in res:
                    add_case(out, cases, c, res, 'exh')
                for flavour, k in (('thread', 2), ('proc', 2)) if n < 4 else (('thread', 2),):
                    if len(cases) > budget:
                        continue
                    for cc, rr in runlib.all_schedules(plain_case(deps, sel, flavour, k), limit=40 if ctx.quick else 200):
                        add_case(out, cases, cc, rr, 'exh')
    out.extra['exhaustive_part'] = 'all DAGs over task_dep with <= %d tasks x 2 selections x serial + every schedule (capped) of thread/proc k=2' % sizes[-1]


def part_edges(ctx, out, cases):
    import runfam
    for c in runfam.edge_family():
        res = runlib.run_impl(c)
        if 'skip' not in res:
            add_case(out, cases, c, res, 'edge')
    out.extra['edge_family_part'] = 'every edge kind x dependency outcome x processing order x flavour (runfam.edge_family)'


def part_random(ctx, out, cases):
    n = ctx.n(260, 4000)
    skipped = 0
    for i in range(n):
        c = runlib.gen_case(ctx.rng, profile=ctx.rng.choice(['mixed', 'mixed', 'calc', 'plain']))
        res = runlib.run_impl(c)
        if 'skip' in res:
            skipped += 1
            continue
        add_case(out, cases, c, res, 'rnd')
    out.extra['random_cases_skipped'] = skipped


# ---- real processes (sampled, oracle only) ----
def part_real_processes(ctx, out):
    import multiprocessing
    from doit.task import Task
    from doit.control import TaskControl
    import doit.runner as R
    runs = 0
    for i in range(ctx.n(6, 60)):
        c = runlib.gen_case(ctx.rng, n=ctx.rng.choice([3, 4, 6]), flavour='serial', profile='plain')
        c['cont'] = True
        for t in c['tasks']:
            t['outcome'] = 'ok'; t['argerr'] = False; t['getargs'] = []; t['check'] = 'run' if t['check'] == 'err' else t['check']
        d = ctx.subdir('mp%d' % i)
        logf = os.path.join(d, 'log')
        fd = os.open(logf, os.O_WRONLY | os.O_CREAT | os.O_APPEND)
        names = runlib.pick_names(c['n']); ids = {nm: j for j, nm in enumerate(names)}

        def w(*xs):
            os.write(fd, (' '.join(map(str, xs)) + '\n').encode())

        def mk(j):
            def act():
                w(20, j, os.getpid()); time.sleep(0.002 * ((j * 7) % 3)); w(21, j, os.getpid())
                return True
            return act
        tl = [Task(names[j], [mk(j)], task_dep=[names[x] for x in t['task_dep']], setup=[names[x] for x in t['setup']])
              for j, t in enumerate(c['tasks'])]
        tc = TaskControl(tl); tc.selected_tasks = [names[j] for j in c['selected']]

        class Rep(runlib.RecReporter):
            def _e(self, code, task, *more):
                w(code, ids[task.name], *more)
        log = []
        dep = runlib.FakeDep(c, names, ids, log, {})
        runner = R.MRunner(dep, Rep(log, ids), continue_=True, num_process=ctx.rng.choice([1, 2, 3, 4]))
        so = (sys.stdout, sys.stderr)
        try:
            runner.run_all(tc.task_dispatcher())
        finally:
            sys.stdout, sys.stderr = so
        os.close(fd)
        events = [[int(x) for x in ln.split()] for ln in open(logf).read().splitlines()]
        real_deps = {ids[nm]: sorted(set(ids[x] for x in list(t.task_dep) + list(t.setup_tasks))) for nm, t in tc.tasks.items()}
        bad = runlib.check_dep_order(events, real_deps, 'proc')
        runs += 1
        out.count('real-multiprocessing')
        if bad:
            out.violations.append(dict(what='real MRunner: task %s started before %s finished' % (bad[0]['task'], bad[0]['unfinished_deps']),
                                       shape='dep-order:real-processes', case=dict(tasks=c['tasks'], selected=c['selected'], events=events)))
    out.extra['real_multiprocessing_runs_oracle_only'] = runs


def run(ctx):
    out = Outcome()
    out.rule = ('exhaustive small DAGs x selections x {serial, thread k=2 all schedules, proc-flavour k=2 all schedules} + random graphs to 10 tasks '
                'mixing task_dep, file_dep-on-target, setup, getargs, calc_dep (static and returned), failures, ignore, up-to-date, --continue/--always, '
                'k=1..4 with random schedules; non-trivial = distinct trace of a case with >=1 dependency edge and >=1 task start')
    cases = []
    part_exhaustive(ctx, out, cases)
    part_edges(ctx, out, cases)
    part_random(ctx, out, cases)
    part_real_processes(ctx, out)
    delayed_cli.delayed_cli_part(ctx, out, 'C01')
    out.evaluations = len(cases) + out.extra.get('real_multiprocessing_runs_oracle_only', 0) + out.extra.get('delayed_cli_runs', 0)
    # targets / file_dep written in every spelling and python type (c01_spelling.py; Model/Implicit.v)
    c01_spelling.spelling_part(ctx, out)
    bad = common.compare_with_model(ctx, runlib.PRE, cases)
    out.traces_validated += len(cases)
    for i, m in bad:
        c = cases[i]
        out.mismatches.append(dict(case=dict(tasks=c['res']['rows'], selected=c['case']['selected'], flavour=c['case']['flavour'], k=c['case']['k'],
                                             cont=c['case']['cont'], always=c['case']['always']),
                                   impl=c['expected'], model=m))
    if cases:
        s = cases[len(cases) // 2]
        out.samples.append(dict(tasks=s['res']['rows'], selected=s['case']['selected'], runner=s['case']['flavour'], k=s['case']['k'],
                                events=s['res']['events'], exit=s['res']['rc']))
    out.assumptions = ['commutation: main-thread code between two blocking points and one worker step commute except through the two queues (scheduler granularity)',
                       'process flavour is driven in threads with a per-worker shallow copy of the runner (own teardown_list, own reporter attribute); real multiprocessing is sampled and judged by the oracle only',
                       'the dependency manager is a recording fake at the runner seam (status/ignore/values per task are inputs of a case)']
    out.extra['trusted_base'] = ['deterministic scheduler harness/runlib.py (FakeQueue/FakeChild)', 'wake_rank/calc_rank oracles recorded from the run (iteration order of Python sets)',
                                 'spelling part: pathlib str(PurePath(text)) is the path_str oracle; the iteration order of the file_dep set (dc_fd_order) is computed by the harness from the declared keys with a Python set of its own']
    return out


def replay(ctx, payload):
    print(payload)
    return 0
