"""Task definitions (doit task dicts) for the teardown-outcome part of C11 (harness/c11_teardown.py).

Used in two places with the same case description: imported by the harness (class-level driver) and imported
by the generated dodo.py of the CLI driver -- so this module imports nothing from the harness and nothing from
doit at import time.

case['tasks'] = [dict(name=str, outcome='ok'|'fail'|'error', utd=bool, task_dep=[names], setup=[names],
                      td=[kind, ...])]            # kind: a key of KINDS (how that teardown action ends)

Every action / teardown action appends ONE line to the log file (one write(2) on an O_APPEND descriptor):
    rs <task> <pid>      the task's action started          re <task> <pid>   ... returned / raised
    td <task> <j> <pid>  teardown action number j of <task> ran (pid: the process that ran it; for a
                         cmd-action the parent of the shell, i.e. the doit process / worker)
"""
import os

# how a teardown action ends -> what doit is documented to make of it:
#   ok    = success (None / True / str / dict returned; exit status 0)
#   fail  = the action FAILED without raising (python returns False or a TaskFailed; exit status 1..125)
#   error = the action ended in an error (python raises / returns a wrong type / a TaskError; exit status > 125;
#           the command string could not be built)
KINDS = {
    'py_none': 'ok', 'py_true': 'ok', 'py_str': 'ok', 'py_dict': 'ok',
    'py_false': 'fail', 'py_ret_failed': 'fail', 'py_ret_failed_exc': 'fail',
    'py_raise': 'error', 'py_badtype': 'error', 'py_ret_error': 'error',
    'cmd_ok': 'ok', 'cmdlist_ok': 'ok',
    'cmd_fail': 'fail', 'cmdlist_fail': 'fail',
    'cmd_err': 'error', 'cmd_notfound': 'error', 'cmd_build_raise': 'error',
}
PY_KINDS = sorted(k for k in KINDS if k.startswith('py_'))
CMD_KINDS = sorted(k for k in KINDS if k.startswith('cmd'))


def say(log, line):
    fd = os.open(log, os.O_WRONLY | os.O_APPEND | os.O_CREAT, 0o644)
    try:
        os.write(fd, (line + '\n').encode())
    finally:
        os.close(fd)


def _action(log, name, outcome):
    def run_action():
        say(log, 'rs %s %d' % (name, os.getpid()))
        try:
            if outcome == 'error':
                raise RuntimeError('action of %s raises' % name)
            return outcome == 'ok'
        finally:
            say(log, 're %s %d' % (name, os.getpid()))
    return run_action


def _py_teardown(log, name, j, kind):
    def td():
        say(log, 'td %s %d %d' % (name, j, os.getpid()))
        if kind == 'py_none':
            return None
        if kind == 'py_true':
            return True
        if kind == 'py_str':
            return 'teardown result'
        if kind == 'py_dict':
            return {'cleaned': name}
        if kind == 'py_false':
            return False
        if kind == 'py_raise':
            raise RuntimeError('teardown %d of %s raises' % (j, name))
        if kind == 'py_badtype':
            return 7
        from doit.exceptions import TaskFailed, TaskError
        if kind == 'py_ret_failed':
            return TaskFailed('teardown %d of %s says it failed' % (j, name))
        if kind == 'py_ret_failed_exc':
            try:
                raise ValueError('inner')
            except ValueError as exc:
                return TaskFailed('teardown %d of %s failed on an exception' % (j, name), exc)
        if kind == 'py_ret_error':
            return TaskError('teardown %d of %s says it is in error' % (j, name))
        raise AssertionError(kind)
    td.__name__ = 'td_%s_%d_%s' % (name, j, kind)
    return td


def _teardown_action(log, name, j, kind):
    if kind.startswith('py_'):
        return (_py_teardown(log, name, j, kind),)
    line = 'td %s %d' % (name, j)
    if kind in ('cmd_ok', 'cmd_fail', 'cmd_err', 'cmd_notfound'):
        tail = {'cmd_ok': 'exit 0', 'cmd_fail': 'exit 3', 'cmd_err': 'exit 126',
                'cmd_notfound': 'no-such-command-c11-%s' % name}[kind]
        return 'echo %s $PPID >> %s; %s' % (line, log, tail)
    if kind in ('cmdlist_ok', 'cmdlist_fail'):
        # list form: no shell; a tiny shell script is the program all the same, started without shell=True
        return ['/bin/sh', '-c', 'echo %s $PPID >> %s; exit %d' % (line, log, 0 if kind == 'cmdlist_ok' else 1)]
    if kind == 'cmd_build_raise':
        from doit.action import CmdAction

        def build():
            say(log, 'td %s %d %d' % (name, j, os.getpid()))
            raise RuntimeError('cannot build the command of teardown %d of %s' % (j, name))
        return CmdAction(build)
    raise AssertionError(kind)


def task_dicts(case, log):
    out = []
    for t in case['tasks']:
        d = dict(name=t['name'], actions=[(_action(log, t['name'], t['outcome']),)],
                 task_dep=list(t.get('task_dep', [])), setup=list(t.get('setup', [])),
                 teardown=[_teardown_action(log, t['name'], j, k) for j, k in enumerate(t['td'])],
                 verbosity=case.get('verbosity', 0))
        if t.get('utd'):
            d['uptodate'] = [True]
        out.append(d)
    return out
